"""C13 — planner caps, utterance budget, one retrieval refinement, LLM-plan sanitiser.

Engine E2 (small-scope enumeration against a reference policy / an independent acceptor).

Legs (every leg is a complete product of a stated alphabet, nothing is sampled):

(A) bundles  : every bundle from {threshold setting} x {s_max at/around each threshold} x {labels} x
               {touched nodes with deltas around epsilon_edit} x {op cap} x {slice cap} x {tokens} x
               {k_retrieval} x {owner_scope};  real ``deliberate`` vs a reference policy, purity
               (twice, deep copy, interleaved with other bundles, bundle unmutated); then ``rag_once`` for every
               retrieval answer x already_used, with a counting retrieve_fn.
(B) speak    : plans produced by deliberate / rag_once x dialogue templates x style prefixes x snippets;
               whitespace-token count of the utterance <= the token budget; same for ``llm_speak`` over a menu
               of adapter answers.
(B2) sweep   : the same speak / llm_speak inputs with every ASCII-whitespace kind between the tokens of the free-text inputs
               (space, newline, tab, CRLF, mixed) x EVERY budget from 1 to the natural length of the utterance + 1.
(C) turns   : real ``run_turn`` (real T1/T2/T3/T4/apply on a small world) x config menu x scripted plans, with a
               counting wrapper on the orchestrator's ``t2_semantic`` seam: <= 1 + 1 retrievals per turn.
(D) sanitiser: every token sequence up to a length bound from three alphabets (single tokens; composite tokens;
               wrapper* composite wrapper*).  Oracle: never raises; ok => the text is acceptable for an independent
               acceptor (strict RFC 8259 recogniser + documented limits) and the returned object is within limits.
(D2) limits  : every documented limit (plan item 200, rationale 2000, 16 items) x how the length is made up: core length and
               padding length around the limit x kind of core character (ASCII, non-ASCII, escaped, astral) x kind of padding
               character (space, escaped tab/LF/CR, NBSP, ...) x placement (lead, trail, both, interior) x sibling content x wrapper;
               item lists of 0..33 items that are identical / distinct / padded / partly blank.  Same oracle as (D), through
               ``parse_and_validate`` and ``plan_with_llm``.
(D3) code points: every kind of code point a Python ``str`` can hold (controls, NUL, the separators ``str.strip`` / ``splitlines`` honour and
               JSON does not, format characters, BOM, non-characters, lone / reversed surrogates, astral) x raw or \\u-escaped x
               repetitions (1, 2, around each limit, beyond the raw-size guard) x every slot of a valid planner text (outside, in the
               fence line, between the JSON tokens, in key / item / rationale / reflection, alone) x wrapper; thorough: all ordered pairs
               of kinds x slots.  Same oracle as (D), through ``parse_and_validate``, ``plan_with_llm`` and ``sanitize_plan``.
"""
from __future__ import annotations

import copy
import itertools
import json
import math
import os
import re
import shutil
import sys
import types

from mc.runner import Run, Stats, HarnessError

from clematis.engine.stages.t3 import policy as t3_policy
from clematis.engine.stages.t3 import legacy as t3_legacy
from clematis.engine.stages.t3 import dialogue as t3_dialogue_mod
from clematis.engine.policy import sanitize as san
from clematis.engine.policy.json_schemas import PLANNER_V1
from clematis.engine.types import Plan, SpeakOp, RequestRetrieveOp


def J(x):
    return json.dumps(x, sort_keys=True, ensure_ascii=False, default=repr)


def _ckey(case):
    t = json.dumps(case, default=repr)
    return (len(t), t)


def _printable(what, limit=6000):
    """The runner prints ``what`` and writes it to a UTF-8 replay file: keep it encodable whatever the failing input contains
    (lone surrogates, controls) and bounded (an exception text may quote a 20k-character input)."""
    t = str(what).encode("ascii", "backslashreplace").decode("ascii")
    t = "".join(ch if (" " <= ch <= "~") else "\\x%02x" % ord(ch) for ch in t)
    if len(t) > limit:
        t = t[:limit - 400] + " ...(%d characters)... " % len(t) + t[-300:]
    return t


def viol(st, sig, what, case):
    """st.violation with a total order on cases (length, then text) so that the reported witness does not depend on
    which worker finishes first."""
    old = st.viol.get(sig)
    if old is None or _ckey(case) < _ckey(old[1]):
        st.viol[sig] = (_printable(what), case)


def install_canonical_merge(run):
    """Run.merge keeps the first of equally long cases, i.e. the witness depends on worker completion order; wrap it
    (instance attribute only) so that ties are broken by the case text."""
    orig = run.merge

    def merge(other):
        for sig, (what, case) in list(other.viol.items()):
            viol(run, sig, what, case)
            other.viol[sig] = run.viol[sig]
        orig(other)

    run.merge = merge


# =====================================================================================================
# (A) bundles
# =====================================================================================================
# threshold settings: None = no policy block in the bundle (documented defaults 0.8 / 0.4 / 0.10)
THR_QUICK = [None, (0.5, 0.5, 0.25), (1.0, 0.0, 0.0)]
THR_THOROUGH = THR_QUICK + [(0.75, 0.25, 0.125), (0.8, 0.4, 0.1)]
DEFAULT_THR = (0.8, 0.4, 0.10)
LABELS = [[], ["a"], ["b", "a", "a"]]
OPS_QUICK = [0, 1, 2, 3, 16]
OPS_THOROUGH = [0, 1, 2, 3, 4, 16]
SLICE = [None, 0, 1, 2]
TOK_QUICK = [1, 2, 256]
TOK_THOROUGH = [1, 2, 3, 256]
KRET_QUICK = [1, 64]
KRET_THOROUGH = [1, 2, 64]
OWNER = ["world", "bogus"]
VALID_OWNERS = ("agent", "world", "any")
N_NODESETS = 4
RAG_ANSWERS = ["empty", "below_low", "at_low", "at_high", "garbage"]


def _thr(th):
    return DEFAULT_THR if th is None else th


def s_alphabet(th, thorough):
    hi, lo, _ = _thr(th)
    vals = [0.0, math.nextafter(lo, -math.inf), lo, math.nextafter(hi, -math.inf), hi, 1.0]
    if thorough:
        vals += [lo - 0.015625, lo + 0.015625, hi - 0.015625, hi + 0.015625, -0.5]
    out = []
    for v in vals:
        if v not in out:
            out.append(v)
    return out


def node_sets(th):
    eps = _thr(th)[2]
    below = math.nextafter(eps, -math.inf) if eps > 0 else 0.0
    above = 2 * eps + 0.5
    return [
        [],
        [{"id": "b", "label": "B", "delta": eps}],
        [{"id": "b", "label": "B", "delta": below}, {"id": "a", "label": "A", "delta": -eps}],
        [{"id": "c", "label": "C", "delta": above}, {"id": "a", "label": "A", "delta": below},
         {"id": "b", "label": "B", "delta": eps}, {"id": "d", "label": "D", "delta": 0.0},
         {"id": "e", "label": "E", "delta": -above}, {"id": "f", "label": "F", "delta": above},
         {"id": "g", "label": "G", "delta": above}, {"id": "h", "label": "H", "delta": -eps},
         {"id": "i", "label": "I", "delta": above}, {"id": "j", "label": "J", "delta": above},
         {"id": "k", "label": "K", "delta": above}],
    ]


def mk_bundle(p):
    """p: dict(th, s, labels, nodes, ops, slice, tokens, k, owner)"""
    th = p["th"]
    if th is not None:
        th = tuple(th)
    t3 = {"max_rag_loops": 1, "tokens": p["tokens"], "temp": 0.7}
    if th is not None:
        t3["policy"] = {"tau_high": th[0], "tau_low": th[1], "epsilon_edit": th[2]}
    b = {
        "version": "t3-bundle-v1",
        "now": "2025-09-19T00:00:00+00:00",
        "agent": {"id": "A", "style_prefix": "", "caps": {"tokens": p["tokens"], "ops": p["ops"]}},
        "world": {"hot_labels": [], "k": 0},
        "t1": {"touched_nodes": copy.deepcopy(node_sets(th)[p["nodes"]]),
               "metrics": {"pops": 0, "iters": 0, "propagations": 0, "radius_cap_hits": 0,
                           "layer_cap_hits": 0, "node_budget_hits": 0}},
        "t2": {"retrieved": [], "metrics": {"tier_sequence": [], "k_returned": 0,
                                            "sim_stats": {"mean": p["s"] / 2, "max": p["s"]}, "cache_used": False}},
        "text": {"input": "hello world", "labels_from_t1": list(LABELS[p["labels"]])},
        "cfg": {"t3": t3, "t2": {"owner_scope": p["owner"], "k_retrieval": p["k"], "sim_threshold": 0.3}},
        "slice_caps": ({} if p["slice"] is None else {"t3_ops": p["slice"]}),
    }
    return b


def plan_dump(plan):
    """cheap canonical text of a Plan (dataclass repr: all fields, nested lists/dicts in insertion order)"""
    return repr(plan)


def ref_intent_class(s, hi, lo):
    if s >= hi:
        return "summary"
    if s >= lo:
        return "mid"
    return "question"


def caps_of(p):
    return p["ops"] if p["slice"] is None else min(p["ops"], p["slice"])


def check_plan(p, bundle, plan, s_eff, where):
    """Reference policy on one plan.  Returns list of (sig, what)."""
    out = []
    hi, lo, eps = _thr(p["th"])
    caps = caps_of(p)
    ops = list(getattr(plan, "ops", []) or [])
    kinds = [getattr(o, "kind", None) for o in ops]
    desc = "<<DESC>>"
    if len(ops) > max(caps, 0):
        out.append(("%s:ops-exceed-cap" % where, "%d ops > min(op cap, slice cap)=%d; %s" % (len(ops), caps, desc)))
    if ops:
        if kinds[0] != "Speak":
            out.append(("%s:speak-not-first" % where, "first op is %s; %s" % (kinds[0], desc)))
        else:
            sp = ops[0]
            got = getattr(sp, "intent", None)
            tl = list(getattr(sp, "topic_labels", []) or [])
            ok = False
            for s1 in (s_eff if isinstance(s_eff, list) else [s_eff]):
                want = ref_intent_class(s1, hi, lo)
                if want == "mid":
                    ok = ok or got == ("assertion" if tl else "ack")
                else:
                    ok = ok or got == want
            if not ok:
                out.append(("%s:intent:%s-band" % (where, want),
                            "intent %r for s_max=%r tau_high=%r tau_low=%r labels=%r; %s" % (got, s_eff, hi, lo, tl, desc)))
            avail = set(str(x) for x in bundle["text"]["labels_from_t1"])
            for n in bundle["t1"]["touched_nodes"]:
                avail.add(str(n.get("label")))
                avail.add(str(n.get("id")))
            if not set(tl) <= avail:
                out.append(("%s:labels-not-from-bundle" % where, "topic_labels %r not in bundle labels %r; %s" % (tl, sorted(avail), desc)))
    for o in ops:
        k = getattr(o, "kind", None)
        if k not in ("Speak", "EditGraph", "RequestRetrieve", "CreateGraph", "SetMetaFilter"):
            out.append(("%s:unknown-op-kind" % where, "op kind %r; %s" % (k, desc)))
        if k == "RequestRetrieve":
            pre = p["s"]
            if not (pre < lo):
                out.append(("%s:retrieve-not-below-tau_low" % where,
                            "RequestRetrieve emitted with s_max=%r >= tau_low=%r; %s" % (pre, lo, desc)))
            kk = getattr(o, "k", None)
            if not (isinstance(kk, int) and 1 <= kk <= max(1, p["k"])):
                out.append(("%s:retrieve-k-out-of-range" % where, "k=%r outside [1,%d]; %s" % (kk, max(1, p["k"]), desc)))
            if getattr(o, "owner", None) not in VALID_OWNERS:
                out.append(("%s:retrieve-owner-invalid" % where, "owner=%r; %s" % (getattr(o, "owner", None), desc)))
        if k == "EditGraph":
            elig = {str(n["id"]) for n in bundle["t1"]["touched_nodes"] if abs(float(n["delta"])) >= eps}
            ids = [str(e.get("id")) for e in (getattr(o, "edits", []) or [])]
            if not set(ids) <= elig:
                out.append(("%s:edit-below-epsilon" % where, "edits %r not within nodes with |delta|>=%r (%r); %s" % (ids, eps, sorted(elig), desc)))
            cap = getattr(o, "cap", None)
            if isinstance(cap, int) and len(ids) > cap:
                out.append(("%s:edits-exceed-op-cap" % where, "%d edits > EditGraph.cap=%d; %s" % (len(ids), cap, desc)))
    if out:
        real = "%s params=%s kinds=%s" % (where, J(p), kinds)
        out = [(sig, what.replace("<<DESC>>", real)) for sig, what in out]
    return out


def rag_answer(kind, p):
    """(answer of the retrieve_fn, list of admissible refined evidence levels given the pre-retrieval s_max)"""
    hi, lo, _ = _thr(p["th"])
    pre = p["s"]
    if kind == "empty":
        return {"retrieved": []}, [pre, max(pre, 0.0)]
    if kind == "garbage":
        return ["not", "a", "dict"], [pre, max(pre, 0.0)]
    sc = {"below_low": math.nextafter(lo, -math.inf), "at_low": lo, "at_high": hi}[kind]
    hits = [{"id": "e2", "score": (sc / 2 if sc > 0 else sc - 1.0), "owner": "A", "quarter": ""},
            {"id": "e1", "_score": sc, "owner": "A", "quarter": ""}]
    return {"retrieved": hits, "metrics": {}}, [max(pre, sc)]


def check_bundle(p, want_plans=False):
    """All oracles of leg (A) on one bundle.  Returns (violations, outcome class, plans) where plans is a list of
    (tag, plan) for the speak leg."""
    out = []
    plans = []
    b = mk_bundle(p)
    b0 = mk_bundle(p)
    try:
        plan = t3_policy.deliberate(b)
        plan2 = t3_policy.deliberate(b)
        plan3 = t3_legacy.deliberate(copy.deepcopy(b))
    except Exception as e:
        return [("deliberate:raises:%s" % type(e).__name__, "deliberate raised %r on %s" % (e, J(p)))], "raise", []
    d1 = plan_dump(plan)
    if b != b0:
        out.append(("deliberate:mutates-bundle", "bundle changed by deliberate; params=%s" % J(p)))
    if plan_dump(plan2) != d1 or plan_dump(plan3) != d1:
        out.append(("deliberate:impure", "same bundle, different plans: %s vs %s / %s; params=%s" % (d1, plan_dump(plan2), plan_dump(plan3), J(p))))
    out += check_plan(p, b, plan, p["s"], "deliberate")
    plans.append(("deliberate", plan))
    kinds = tuple(getattr(o, "kind", None) for o in plan.ops)
    intent = getattr(plan.ops[0], "intent", None) if plan.ops else None
    outcome = (kinds, intent)

    # ---- rag_once on the produced plan ----
    has_rr = any(getattr(o, "kind", None) == "RequestRetrieve" for o in plan.ops)
    hi, lo, _ = _thr(p["th"])
    for ans in RAG_ANSWERS:
        for used in (False, True):
            calls = []
            res, sc = rag_answer(ans, p)

            def fn(payload, _res=res):
                calls.append(payload)
                return copy.deepcopy(_res)

            pd0 = plan_dump(plan)
            try:
                rp, m = t3_legacy.rag_once(b, plan, fn, already_used=used)
                n1 = len(calls)
                rp2, m2 = t3_legacy.rag_once(b, plan, fn, already_used=used)
            except Exception as e:
                out.append(("rag_once:raises:%s" % type(e).__name__, "rag_once raised %r; params=%s answer=%s used=%s" % (e, J(p), ans, used)))
                continue
            where = "rag_once"
            tag = "<<TAG>>"
            n_before = len(out)
            if n1 > 1:
                out.append(("rag_once:retrieves-more-than-once", "%d retrieve calls in one refinement; %s" % (n1, tag)))
            if (used or not has_rr) and n1 != 0:
                out.append(("rag_once:retrieves-when-%s" % ("already-used" if used else "not-requested"),
                            "%d retrieve calls; %s" % (n1, tag)))
            if plan_dump(plan) != pd0:
                out.append(("rag_once:mutates-plan", "input plan changed; %s" % tag))
            if b != b0:
                out.append(("rag_once:mutates-bundle", "bundle changed; %s" % tag))
            if plan_dump(rp) != plan_dump(rp2) or m != m2:
                out.append(("rag_once:impure", "two calls differ; %s" % tag))
            if (used or not has_rr) and plan_dump(rp) != pd0:
                out.append(("rag_once:changes-plan-without-retrieval", "plan changed although no retrieval was allowed; %s" % tag))
            if n1 == 1 and not used and has_rr:
                s_eff = sc
                # refined plan: same reference policy with the refined evidence (RequestRetrieve legitimately stays)
                out += check_plan(p, b, rp, s_eff, where)
                for c in calls:
                    if not (isinstance(c.get("k"), int) and c["k"] >= 1) or c.get("owner") not in VALID_OWNERS:
                        out.append(("rag_once:payload-invalid", "payload %s; %s" % (J(c), tag)))
                if want_plans and not used:
                    plans.append(("rag_once:" + ans, rp))
            if len(out) > n_before:
                real = "params=%s answer=%s already_used=%s" % (J(p), ans, used)
                out[n_before:] = [(sig, what.replace("<<TAG>>", real)) for sig, what in out[n_before:]]
    return out, outcome, plans


def bundle_params(thorough):
    thr = THR_THOROUGH if thorough else THR_QUICK
    ops = OPS_THOROUGH if thorough else OPS_QUICK
    tok = TOK_THOROUGH if thorough else TOK_QUICK
    kk = KRET_THOROUGH if thorough else KRET_QUICK
    for th in thr:
        for s in s_alphabet(th, thorough):
            for li in range(len(LABELS)):
                for ni in range(N_NODESETS):
                    for o in ops:
                        for sl in SLICE:
                            for t in tok:
                                for k in kk:
                                    for ow in OWNER:
                                        yield {"th": th, "s": s, "labels": li, "nodes": ni, "ops": o, "slice": sl,
                                               "tokens": t, "k": k, "owner": ow}


# =====================================================================================================
# (B) speak / llm_speak
# =====================================================================================================
TEMPLATES = [
    ("default", "{style_prefix}| summary: {labels}. next: {intent}"),
    ("snippets", "{snippets} :: {snippets_text} :: {labels}"),
    ("malformed-brace", "{labels"),
    ("unknown-key", "{nope} then {intent}"),
    ("custom-long", "one two three four five {identity} six {intent} seven"),
    ("odd-whitespace", "a\tb\nc  d e f {labels}"),
    ("absent", None),
]
STYLES = ["", "calm", "very calm style"]
RETRIEVED = [
    [],
    [{"id": "e1", "score": 0.9, "owner": "A", "quarter": "", "text": "alpha beta gamma"},
     {"id": "e2", "score": 0.5, "owner": "A", "quarter": "", "text": "delta\tepsilon"},
     {"id": "e3", "score": 0.1, "owner": "A", "quarter": "", "text": "zeta"}],
    # episode texts with line breaks (notes, bulleted lists): the tokens of {snippets_text} are then not space-separated
    [{"id": "m1", "score": 0.8, "owner": "A", "quarter": "", "text": "first line\nsecond line\n\nthird"},
     {"id": "m2", "score": 0.7, "owner": "A", "quarter": "", "text": "- item one\n- item\ttwo"}],
]
N_RETRIEVED_MAIN = 2   # leg (B) uses the first two sets; the multi-line set is covered (with every budget) by the sweep leg (B2)

# ---- whitespace kinds: the budget is defined over whitespace-separated tokens, so WHICH whitespace separates the tokens of the
# free-text inputs (template, style prefix, identity, snippet texts, LLM completion) is a dimension of its own.  ``resep`` rewrites
# every whitespace run of a text to one kind (token content and token count untouched).  ASCII whitespace only.
SEP_KINDS = ["space", "newline", "tab", "crlf", "mixed"]
_SEP_ONE = {"space": " ", "newline": "\n", "tab": "\t", "crlf": "\r\n"}
_SEP_CYCLE = ["\n", " ", "\t", "  ", " \n", "\r\n"]
_WS_RUN = re.compile(r"[ \t\r\n]+")
SWEEP_MAX = 64      # budgets are swept over 1 .. min(natural length, SWEEP_MAX) + 1


def resep(text, kind):
    if kind is None or not isinstance(text, str):
        return text
    if kind in _SEP_ONE:
        one = _SEP_ONE[kind]
        return _WS_RUN.sub(lambda m: one, text)
    cnt = itertools.count()
    return _WS_RUN.sub(lambda m: _SEP_CYCLE[next(cnt) % len(_SEP_CYCLE)], text)


def mk_dialog_bundle(p, ti, si, ri, sep=None):
    dlg = {"include_top_k_snippets": 2, "template_file": None, "identity": resep("You are Clematis the gardener.", sep), "history": []}
    if TEMPLATES[ti][1] is not None:
        dlg["template"] = resep(TEMPLATES[ti][1], sep)
    retrieved = copy.deepcopy(RETRIEVED[ri])
    if sep is not None:
        for h in retrieved:
            h["text"] = resep(h["text"], sep)
    return {
        "version": "t3-dialog-bundle-v1",
        "now": "2025-09-19T00:00:00+00:00",
        "agent": {"id": "A", "style_prefix": resep(STYLES[si], sep), "caps": {"tokens": p["tokens"], "ops": p["ops"]}},
        "text": {"input": "hello world", "labels_from_t1": list(LABELS[p["labels"]])},
        "retrieved": retrieved,
        "dialogue": dlg,
    }


def _has_other_ws(u):
    return any(c.isspace() and c != " " for c in str(u))


def check_speak(p, tag, plan, ti, si, ri, sep=None, sweep=False):
    db = mk_dialog_bundle(p, ti, si, ri, sep)
    db0 = mk_dialog_bundle(p, ti, si, ri, sep)
    pd0 = plan_dump(plan)
    out = []
    try:
        utter, metrics = t3_dialogue_mod.speak(db, plan)
        utter2, metrics2 = t3_legacy.speak(db, plan)
    except Exception as e:
        return [("speak:raises:%s" % type(e).__name__, "speak raised %r; params=%s template=%s" % (e, J(p), TEMPLATES[ti][0]))], None
    n = len(str(utter).split())
    desc = "plan-from=%s params=%s template=%s style=%r snippets=%d" % (tag, J(p), TEMPLATES[ti][0], STYLES[si], len(RETRIEVED[ri]))
    if sweep:
        desc += " separators=%s" % (sep or "as-written")
    if n > p["tokens"]:
        if sweep:
            cls = "budget-sweep:%s" % ("other-whitespace-separated" if _has_other_ws(utter) else "space-separated")
        else:
            cls = "odd-whitespace-template" if TEMPLATES[ti][0] == "odd-whitespace" else "plain-template"
        out.append(("speak:over-budget:%s" % cls, "utterance has %d whitespace tokens > budget %d: %r; %s" % (n, p["tokens"], utter, desc)))
    if utter2 != utter or metrics != metrics2:
        out.append(("speak:impure", "two calls differ; %s" % desc))
    if db != db0 or plan_dump(plan) != pd0:
        out.append(("speak:mutates-input", "dialog bundle or plan changed; %s" % desc))
    return out, (n, bool(metrics.get("truncated")))


class _Res:
    def __init__(self, text, tokens=0, truncated=False):
        self.text = text
        self.tokens = tokens
        self.truncated = truncated


LONG_TEXT = " ".join("w%d" % i for i in range(300))
ADAPTERS = [
    ("long", lambda: _Res(LONG_TEXT, 300, False)),
    ("short", lambda: _Res("fine.", 1, False)),
    ("none-text", lambda: _Res(None)),
    ("dict", lambda: {"text": LONG_TEXT + "\nmore\tand more", "tokens": 302, "truncated": False}),
    ("prefixed", lambda: _Res("calm| " + LONG_TEXT, 301, False)),
    ("raises", None),
]


class _Adapter:
    name = "FakeLLM"
    default_temperature = 0.2

    def __init__(self, fn):
        self.fn = fn

    def generate(self, prompt, max_tokens=0, temperature=0.0):
        if self.fn is None:
            raise RuntimeError("adapter down")
        return self.fn()


def check_llm_speak(p, tag, plan, ai, si, ri):
    db = mk_dialog_bundle(p, 0, si, ri)
    try:
        utter, metrics = t3_dialogue_mod.llm_speak(db, plan, _Adapter(ADAPTERS[ai][1]))
    except Exception as e:
        return [("llm_speak:raises:%s" % type(e).__name__, "llm_speak raised %r; adapter=%s params=%s" % (e, ADAPTERS[ai][0], J(p)))], None
    n = len(str(utter).split())
    if n > p["tokens"]:
        return [("llm_speak:over-budget", "utterance has %d whitespace tokens > budget %d; adapter=%s style=%r plan-from=%s params=%s" % (
            n, p["tokens"], ADAPTERS[ai][0], STYLES[si], tag, J(p)))], (n, True)
    return [], (n, bool(metrics.get("truncated")))


def _speak_subset(p, thorough):
    """The speak leg runs on the sub-product of bundles whose non-dialogue dimensions are at their first value."""
    return p["k"] == 64 and p["owner"] == "world" and (thorough or p["th"] is None or tuple(p["th"]) == (1.0, 0.0, 0.0))


def _first_speak(plan):
    for o in getattr(plan, "ops", []) or []:
        if getattr(o, "kind", None) == "Speak":
            return o
    return None


def _bundle_worker(chunk, st: Stats, thorough):
    seen_digest = {}
    speak_seen = set()
    llm_seen = set()
    for p in chunk:
        sp = _speak_subset(p, thorough)
        res, outcome, plans = check_bundle(p, want_plans=sp)
        st.add("transitions", 3 + 4 * len(RAG_ANSWERS))
        st.add("validated", 1 + len(RAG_ANSWERS))
        st.add("bundles")
        st.add("states")
        st.distinct("outcomes", ("plan", outcome))
        if outcome[0] and len(outcome[0]) > 1:
            st.add("nontrivial")
        for sig, what in res:
            viol(st, sig, what, {"kind": "bundle", "params": p})
        seen_digest[id(p)] = plan_dump(plans[0][1]) if plans else None
        if not sp:
            continue
        for tag, plan in plans:
            # speak only looks at the first Speak op, the labels, the token caps and the dialogue block: identical
            # (speak-op, labels, tokens, template, style, snippets) inputs are executed once per worker
            skey = (repr(_first_speak(plan)), p["labels"], p["tokens"])
            for ti in range(len(TEMPLATES)):
                for si in range(len(STYLES)):
                    for ri in range(N_RETRIEVED_MAIN):
                        k = (skey, ti, si, ri)
                        if k in speak_seen:
                            continue
                        speak_seen.add(k)
                        r, oc = check_speak(p, tag, plan, ti, si, ri)
                        st.add("transitions", 2)
                        st.add("validated")
                        st.add("states")
                        st.distinct("speak_inputs", k)
                        if oc is not None:
                            st.distinct("outcomes", ("speak", min(oc[0], 8), oc[1]))
                            if oc[1]:
                                st.distinct("speak_truncated", k)
                        for sig, what in r:
                            viol(st, sig, what, {"kind": "speak", "params": p, "plan_from": tag, "template": ti, "style": si, "retrieved": ri})
            for ai in range(len(ADAPTERS)):
                for si in range(len(STYLES)):
                    k = (skey, ai, si)
                    if k in llm_seen:
                        continue
                    llm_seen.add(k)
                    r, oc = check_llm_speak(p, tag, plan, ai, si, 1)
                    st.add("transitions")
                    st.add("validated")
                    st.add("states")
                    st.distinct("llm_speak_inputs", k)
                    if oc is not None:
                        st.distinct("outcomes", ("llm_speak", min(oc[0], 8), oc[1]))
                    for sig, what in r:
                        viol(st, sig, what, {"kind": "llm_speak", "params": p, "plan_from": tag, "adapter": ai, "style": si})
    # interleaved purity: after everything else in this chunk, every bundle again (reverse order)
    for p in reversed(chunk):
        try:
            d = plan_dump(t3_policy.deliberate(mk_bundle(p)))
        except Exception:
            continue
        st.add("transitions")
        if seen_digest.get(id(p)) is not None and d != seen_digest[id(p)]:
            viol(st, "deliberate:impure-across-calls", "plan for the same bundle changed after other bundles were planned; params=%s" % J(p),
                 {"kind": "bundle", "params": p})
    if chunk:
        st.sample({"kind": "bundle", "params": chunk[0]})


def _plan_for(p, tag):
    b = mk_bundle(p)
    plan = t3_policy.deliberate(b)
    if tag == "deliberate":
        return plan
    ans = tag.split(":", 1)[1]
    res, _ = rag_answer(ans, p)
    rp, _ = t3_legacy.rag_once(b, plan, lambda payload: copy.deepcopy(res), already_used=False)
    return rp


# =====================================================================================================
# (B2) budget sweep x whitespace kind
# =====================================================================================================
# Leg (B) uses the bundle alphabet's budgets (1, 2, [3,] 256), i.e. "almost nothing fits" and "everything fits".  The clamp has
# to hold for EVERY budget, and the interesting ones lie between 1 and the natural length of the utterance.  This leg therefore
# derives the budget alphabet from the utterance itself: for every speak input it first renders the utterance with the large
# budget (256), takes its natural token count n, and then runs every budget 1 .. n+1 (all budgets > n behave like 256).  The
# same inputs are rendered with every whitespace kind of SEP_KINDS between the tokens.
SWEEP_S_QUICK = [1.0, 0.0]          # summary / question (+ RequestRetrieve) under the default thresholds
SWEEP_S_THOROUGH = [1.0, 0.0, 0.6]  # + the mid band (assertion / ack)
W8 = "w0 w1 w2 w3 w4 w5 w6 w7"
LLM_SWEEP_TEXTS = ["ok", W8, "calm| " + W8, "1. first point\n2. second point\n\n- third\n- fourth"]
LLM_SHAPES = ["obj", "dict"]
LLM_REPORTED = ["honest", "zero"]   # token count the adapter reports for its own completion


def _sweep_params(s, li, t):
    return {"th": None, "s": s, "labels": li, "nodes": 0, "ops": 3, "slice": None, "tokens": t, "k": 64, "owner": "world"}


def _sweep_plan(s, li, t, cache=None):
    key = (s, li, t)
    if cache is not None and key in cache:
        return cache[key]
    plan = t3_policy.deliberate(mk_bundle(_sweep_params(s, li, t)))
    if cache is not None:
        cache[key] = plan
    return plan


def sweep_items(thorough):
    items = []
    for s in (SWEEP_S_THOROUGH if thorough else SWEEP_S_QUICK):
        for li in range(len(LABELS)):
            for ti in range(len(TEMPLATES)):
                for sep in [None] + SEP_KINDS:      # None = texts as written (odd-whitespace template, multi-line snippets)
                    for si in range(len(STYLES)):
                        for ri in range(len(RETRIEVED)):
                            items.append(("speak", s, li, ti, sep, si, ri))
    for xi in range(len(LLM_SWEEP_TEXTS)):
        for sep in [None] + SEP_KINDS:
            for shape in LLM_SHAPES:
                for rep in LLM_REPORTED:
                    for si in range(len(STYLES)):
                        items.append(("llm", xi, sep, shape, rep, si))
    return items


def _llm_sweep_adapter(xi, sep, shape, rep):
    text = resep(LLM_SWEEP_TEXTS[xi], sep)
    cnt = len(text.split()) if rep == "honest" else 0
    if shape == "dict":
        return _Adapter(lambda: {"text": text, "tokens": cnt, "truncated": False})
    return _Adapter(lambda: _Res(text, cnt, False))


def check_llm_sweep(xi, sep, shape, rep, si, t):
    """llm_speak with budget t on one adapter completion.  Returns (violations, (tokens, truncated) | None)."""
    p = _sweep_params(1.0, 0, t)
    plan = _sweep_plan(1.0, 0, t)
    db = mk_dialog_bundle(p, 0, si, 1)
    desc = "completion=%r separators=%s adapter-shape=%s reported-count=%s style=%r budget=%d" % (
        LLM_SWEEP_TEXTS[xi], sep or "as-is", shape, rep, STYLES[si], t)
    try:
        utter, metrics = t3_dialogue_mod.llm_speak(db, plan, _llm_sweep_adapter(xi, sep, shape, rep))
    except Exception as e:
        return [("llm_speak:raises:%s" % type(e).__name__, "llm_speak raised %r; %s" % (e, desc))], None
    n = len(str(utter).split())
    if n > t:
        return [("llm_speak:over-budget:budget-sweep", "utterance has %d whitespace tokens > budget %d: %r; %s" % (n, t, utter, desc))], (n, True)
    return [], (n, bool(metrics.get("truncated")))


def _natural_len(n):
    return min(max(int(n), 0), SWEEP_MAX)


def _sweep_worker(chunk, st: Stats):
    plans = {}
    for item in chunk:
        if item[0] == "speak":
            _, s, li, ti, sep, si, ri = item
            base = {"kind": "speak_sweep", "s": s, "labels": li, "template": ti, "sep": sep, "style": si, "retrieved": ri}
            try:
                p_big = _sweep_params(s, li, 256)
                r, oc = check_speak(p_big, "deliberate", _sweep_plan(s, li, 256, plans), ti, si, ri, sep, sweep=True)
            except Exception as e:   # deliberate itself failing is leg (A)'s finding; keep it a finding here too
                viol(st, "deliberate:raises:%s" % type(e).__name__, "deliberate raised %r on %s" % (e, J(_sweep_params(s, li, 256))),
                     {"kind": "bundle", "params": _sweep_params(s, li, 256)})
                continue
            st.add("transitions", 2); st.add("validated"); st.add("states"); st.add("sweep_inputs")
            for sig, what in r:
                viol(st, sig, what, dict(base, budget=256))
            if oc is None:
                continue
            n_full = _natural_len(oc[0])
            st.distinct("sweep_natural_lengths", n_full)
            for t in range(1, n_full + 2):
                try:
                    plan = _sweep_plan(s, li, t, plans)
                except Exception as e:
                    viol(st, "deliberate:raises:%s" % type(e).__name__, "deliberate raised %r on %s" % (e, J(_sweep_params(s, li, t))),
                         {"kind": "bundle", "params": _sweep_params(s, li, t)})
                    continue
                r, oc2 = check_speak(_sweep_params(s, li, t), "deliberate", plan, ti, si, ri, sep, sweep=True)
                st.add("transitions", 2); st.add("validated"); st.add("states"); st.add("sweep_speak_cases")
                if oc2 is not None:
                    st.distinct("outcomes", ("sweep-speak", (sep or "as-written") if sep in (None, "space") else "other-ws",
                                             "truncated" if oc2[1] else "fits", "below-natural" if t < n_full else "at-or-above-natural"))
                    if oc2[1]:
                        st.add("sweep_truncated")
                if t < n_full:
                    st.add("sweep_below_natural"); st.add("nontrivial")
                for sig, what in r:
                    viol(st, sig, what, dict(base, budget=t))
        else:
            _, xi, sep, shape, rep, si = item
            base = {"kind": "llm_sweep", "text": xi, "sep": sep, "shape": shape, "reported": rep, "style": si}
            try:
                r, oc = check_llm_sweep(xi, sep, shape, rep, si, 256)
            except Exception as e:
                viol(st, "deliberate:raises:%s" % type(e).__name__, "deliberate raised %r on %s" % (e, J(_sweep_params(1.0, 0, 256))),
                     {"kind": "bundle", "params": _sweep_params(1.0, 0, 256)})
                continue
            st.add("transitions"); st.add("validated"); st.add("states"); st.add("sweep_inputs")
            for sig, what in r:
                viol(st, sig, what, dict(base, budget=256))
            if oc is None:
                continue
            n_full = _natural_len(oc[0])
            for t in range(1, n_full + 2):
                try:
                    r, oc2 = check_llm_sweep(xi, sep, shape, rep, si, t)
                except Exception as e:
                    viol(st, "deliberate:raises:%s" % type(e).__name__, "deliberate raised %r on %s" % (e, J(_sweep_params(1.0, 0, t))),
                         {"kind": "bundle", "params": _sweep_params(1.0, 0, t)})
                    continue
                st.add("transitions"); st.add("validated"); st.add("states"); st.add("sweep_llm_cases")
                if oc2 is not None:
                    st.distinct("outcomes", ("sweep-llm", "truncated" if oc2[1] else "fits"))
                    if oc2[1]:
                        st.add("sweep_truncated")
                if t < n_full:
                    st.add("sweep_below_natural"); st.add("nontrivial")
                for sig, what in r:
                    viol(st, sig, what, dict(base, budget=t))
    if chunk and chunk[0][0] == "speak":
        _, s, li, ti, sep, si, ri = chunk[0]
        st.sample({"kind": "speak_sweep", "s": s, "labels": li, "template": ti, "sep": sep, "style": si, "retrieved": ri, "budget": 1})


# =====================================================================================================
# (D) sanitiser
# =====================================================================================================
class _Bad(Exception):
    pass


class _Obj:
    __slots__ = ("pairs",)

    def __init__(self, pairs):
        self.pairs = pairs


_WS = " \t\n\r"
_DIG = "0123456789"
_HEX = "0123456789abcdefABCDEF"
_MAX_DEPTH = 32


def _skip(s, i):
    n = len(s)
    while i < n and s[i] in _WS:
        i += 1
    return i


_PLAIN_RUN = re.compile(r'[^"\\\x00-\x1f]*')   # characters that may appear unescaped inside a JSON string


def _hex4(s, i):
    h = s[i:i + 4]
    if len(h) != 4 or any(ch not in _HEX for ch in h):
        return None
    return int(h, 16)


def _p_string(s, i):
    # s[i] == '"'.  Lengths are counted in Unicode code points (the unit of JSON Schema minLength / maxLength): an escaped
    # surrogate pair is ONE character, exactly as a raw astral character is.
    i += 1
    n = len(s)
    buf = []
    while True:
        m = _PLAIN_RUN.match(s, i)
        if m.end() > i:
            buf.append(m.group())
            i = m.end()
        if i >= n:
            raise _Bad("unterminated string")
        c = s[i]
        if c == '"':
            return "".join(buf), i + 1
        if c != "\\":
            raise _Bad("control char in string")
        i += 1
        if i >= n:
            raise _Bad("bad escape")
        e = s[i]
        if e in '"\\/':
            buf.append(e)
        elif e in "bfnrt":
            buf.append({"b": "\b", "f": "\f", "n": "\n", "r": "\r", "t": "\t"}[e])
        elif e == "u":
            cp = _hex4(s, i + 1)
            if cp is None:
                raise _Bad("bad \\u escape")
            i += 4
            if 0xD800 <= cp <= 0xDBFF and s.startswith("\\u", i + 1):
                lo = _hex4(s, i + 3)
                if lo is not None and 0xDC00 <= lo <= 0xDFFF:
                    cp = 0x10000 + ((cp - 0xD800) << 10) + (lo - 0xDC00)
                    i += 6
            buf.append(chr(cp))
        else:
            raise _Bad("bad escape")
        i += 1


def _p_number(s, i):
    n = len(s)
    j = i
    if j < n and s[j] == "-":
        j += 1
    if j >= n or s[j] not in _DIG:
        raise _Bad("number")
    if s[j] == "0":
        j += 1
    else:
        while j < n and s[j] in _DIG:
            j += 1
    isf = False
    if j < n and s[j] == ".":
        j += 1
        if j >= n or s[j] not in _DIG:
            raise _Bad("fraction")
        while j < n and s[j] in _DIG:
            j += 1
        isf = True
    if j < n and s[j] in "eE":
        j += 1
        if j < n and s[j] in "+-":
            j += 1
        if j >= n or s[j] not in _DIG:
            raise _Bad("exponent")
        while j < n and s[j] in _DIG:
            j += 1
        isf = True
    return ("num", s[i:j], isf), j


def _p_value(s, i, depth):
    if depth > _MAX_DEPTH:
        raise _Bad("too deep for a planner object")
    n = len(s)
    if i >= n:
        raise _Bad("eof")
    c = s[i]
    if c == "{":
        pairs = []
        i = _skip(s, i + 1)
        if i < n and s[i] == "}":
            return _Obj(pairs), i + 1
        while True:
            if i >= n or s[i] != '"':
                raise _Bad("key")
            k, i = _p_string(s, i)
            i = _skip(s, i)
            if i >= n or s[i] != ":":
                raise _Bad("colon")
            i = _skip(s, i + 1)
            v, i = _p_value(s, i, depth + 1)
            pairs.append((k, v))
            i = _skip(s, i)
            if i < n and s[i] == ",":
                i = _skip(s, i + 1)
                continue
            if i < n and s[i] == "}":
                return _Obj(pairs), i + 1
            raise _Bad("object")
    if c == "[":
        items = []
        i = _skip(s, i + 1)
        if i < n and s[i] == "]":
            return items, i + 1
        while True:
            v, i = _p_value(s, i, depth + 1)
            items.append(v)
            i = _skip(s, i)
            if i < n and s[i] == ",":
                i = _skip(s, i + 1)
                continue
            if i < n and s[i] == "]":
                return items, i + 1
            raise _Bad("array")
    if c == '"':
        return _p_string(s, i)
    if s.startswith("true", i):
        return True, i + 4
    if s.startswith("false", i):
        return False, i + 5
    if s.startswith("null", i):
        return None, i + 4
    if c == "-" or c in _DIG:
        return _p_number(s, i)
    raise _Bad("value")


def strict_json(s):
    """RFC 8259 recogniser; returns the value (objects as _Obj with ordered pairs) or raises _Bad."""
    i = _skip(s, 0)
    v, i = _p_value(s, i, 0)
    i = _skip(s, i)
    if i != len(s):
        raise _Bad("trailing data")
    return v


ALLOWED_KEYS = ("plan", "rationale", "reflection")
LIM_ITEMS, LIM_ITEM_LEN, LIM_RAT = 16, 200, 2000   # documented in json_schemas.py / PLANNER_V1


def within_limits(d):
    """d: mapping key -> value (python or strict_json values).  The documented planner schema."""
    if "plan" not in d or "rationale" not in d:
        return False
    if any(k not in ALLOWED_KEYS for k in d):
        return False
    plan, rat = d["plan"], d["rationale"]
    if not isinstance(plan, list) or len(plan) > LIM_ITEMS:
        return False
    for x in plan:
        if not isinstance(x, str) or not (1 <= len(x) <= LIM_ITEM_LEN):
            return False
    if not isinstance(rat, str) or not (1 <= len(rat) <= LIM_RAT):
        return False
    if "reflection" in d and isinstance(d["reflection"], (list, dict, _Obj)):
        return False
    return True


def body_acceptable(body):
    try:
        v = strict_json(body)
    except _Bad:
        return False
    except RecursionError:
        return False
    if not isinstance(v, _Obj):
        return False
    first, last = {}, {}
    for k, val in v.pairs:
        first.setdefault(k, val)
        last[k] = val
    return within_limits(first) or within_limits(last)


def candidates(text):
    """Every reading of 'the fence-stripped text' that a faithful implementation could take (generous)."""
    s = text.strip()
    yield s
    if s.startswith("\ufeff"):
        # RFC 8259 section 8.1: a parser MAY ignore a leading byte order mark instead of treating it as an error
        yield s[1:].strip()
    if len(s) >= 6 and s.startswith("```") and s.endswith("```"):
        inner = s[3:-3]
        if "\n" in inner:
            tag, body = inner.split("\n", 1)
            if tag.strip().lower() in ("", "json", "jsonc"):
                yield body.strip()
        # one-line fences  ```{...}```  /  ```json {...}```
        t = inner.strip()
        yield t
        for lang in ("jsonc", "json"):
            if t.lower().startswith(lang):
                yield t[len(lang):].strip()


def ref_acceptable(text):
    for c in candidates(text):
        if body_acceptable(c):
            return True
    return False


# ---- alphabets ----
S201 = '"' + "y" * 201 + '"'
L17 = "[" + ",".join(['"i"'] * 17) + "]"
HUGE = '"' + "z" * 20001 + '"'
DEEP = "[" * 2500
S2001 = '"' + "w" * 2001 + '"'
BASE = ["```", "json", "yaml", "\n", "{", "}", "[", "]", '"plan":', '"rationale":"r"', '"reflection":true', '"x"', ",",
        "Here is the plan: ", S201, L17, HUGE, "NaN", DEEP, '"rationale":']
_AT_LIMIT = '{"plan":[' + ",".join(['"' + "p" * 200 + '"'] * 16) + '],"rationale":"' + "q" * 2000 + '"}'
COMPOSITES = [
    ("valid", '{"plan":["x"],"rationale":"r"}'),
    ("valid-reflection", '{"plan":[],"rationale":"r","reflection":true}'),
    ("valid-at-limits", _AT_LIMIT),
    ("extra-key", '{"plan":[],"rationale":"r","extra":1}'),
    ("missing-rationale", '{"plan":["x"]}'),
    ("plan-not-list", '{"plan":"x","rationale":"r"}'),
    ("item-not-string", '{"plan":[1],"rationale":"r"}'),
    ("item-empty", '{"plan":[""],"rationale":"r"}'),
    ("17-items", '{"plan":' + L17 + ',"rationale":"r"}'),
    ("item-201", '{"plan":[' + S201 + '],"rationale":"r"}'),
    ("rationale-empty", '{"plan":[],"rationale":""}'),
    ("rationale-2001", '{"plan":[],"rationale":' + S2001 + '}'),
    ("rationale-null", '{"plan":[],"rationale":null}'),
    ("reflection-list", '{"plan":[],"rationale":"r","reflection":[true]}'),
    ("top-array", '[{"plan":[],"rationale":"r"}]'),
    ("fenced", '```json\n{"plan":["x"],"rationale":"r"}\n```'),
    ("fenced-yaml", '```yaml\n{"plan":["x"],"rationale":"r"}\n```'),
    ("nan-value", '{"plan":[],"rationale":"r","reflection":NaN}'),
]
FULL = BASE + [c for _, c in COMPOSITES]
WRAP = ["```", "json", "yaml", "\n", " ", "Here is the plan: ", ",", "{", "}", "[", "]", "NaN", '"x"']
ALPHA = {"A": BASE, "B": FULL, "W": WRAP, "C": [c for _, c in COMPOSITES]}
for _k, _v in ALPHA.items():
    assert len(set(_v)) == len(_v), _k


def classify_accept(text):
    """signature class of a wrongly accepted string"""
    s = text.strip()
    body_ok = False
    for c in candidates(text):
        try:
            v = strict_json(c)
            if isinstance(v, _Obj):
                body_ok = True
        except (_Bad, RecursionError):
            pass
    if body_ok:
        return "sanitiser:accepts-object-outside-limits"
    if s.startswith("```") and s.endswith("```") and len(s) >= 6:
        inner = s[3:-3]
        tag = inner.split("\n", 1)[0].strip().lower() if "\n" in inner else ""
        if tag not in ("", "json", "jsonc"):
            return "sanitiser:accepts-non-json-fence-language"
    if "NaN" in s or "Infinity" in s:
        for c in candidates(text):
            try:
                json.loads(c)
                return "sanitiser:accepts-non-json-constant"
            except Exception:
                pass
    if "```" in s:
        return "sanitiser:accepts-fence-with-surrounding-text"
    return "sanitiser:accepts-non-single-json-object"


def check_string(text):
    """Oracle of leg (D) on one string.  Returns (violations, ok)."""
    try:
        r = san.parse_and_validate(text, PLANNER_V1)
        ok, obj = r
    except BaseException as e:  # noqa - totality is the property
        if isinstance(e, (KeyboardInterrupt, SystemExit)):
            raise
        return [("sanitiser:raises:%s" % type(e).__name__, "parse_and_validate raised %r on %s" % (e, _short(text)))], False
    if not ok:
        return [], False
    out = []
    if not isinstance(text, str):
        return [("sanitiser:accepts-non-string", "accepted %r" % (text,))], True
    if not ref_acceptable(text):
        out.append((classify_accept(text), "accepted although the text is not one JSON object within the documented limits: %s" % _short(text)))
    if not (isinstance(obj, dict) and within_limits(obj)):
        out.append(("sanitiser:returns-object-outside-limits", "returned %s for %s" % (_short(J(obj)), _short(text))))
    try:
        r2 = san.parse_and_validate(text, PLANNER_V1)
        if J(r2) != J(r):
            out.append(("sanitiser:impure", "two calls differ on %s" % _short(text)))
    except BaseException as e:  # noqa
        out.append(("sanitiser:raises:%s" % type(e).__name__, "second call raised %r on %s" % (e, _short(text))))
    return out, True


def _short(t):
    t = t if isinstance(t, str) else repr(t)
    return repr(t) if len(t) <= 240 else repr(t[:120]) + "...(%d chars)..." % len(t) + repr(t[-80:])


def san_items(thorough):
    """work items: (space, n, prefix-indices).  Spaces:
       A: BASE^n, B: FULL^n, C: WRAP^i . composite . WRAP^j"""
    items = []
    nA, nB, nC = (6, 4, 5) if thorough else (5, 4, 4)
    for space, nmax in (("A", nA), ("B", nB)):
        N = len(ALPHA[space])
        for n in range(0, nmax + 1):
            if n <= 2:
                items.append((space, n, ()))
            elif n <= 4:
                for a in range(N):
                    items.append((space, n, (a,)))
            else:
                for a in range(N):
                    for b in range(N):
                        items.append((space, n, (a, b)))
    for ci in range(len(COMPOSITES)):
        for i in range(0, nC + 1):
            for j in range(0, nC + 1 - i):
                if i >= 3:
                    for a in range(len(WRAP)):
                        items.append(("C", (i, j), (ci, a)))
                else:
                    items.append(("C", (i, j), (ci,)))
    return items


def _reason_class(obj):
    if isinstance(obj, str):
        return obj.split(":", 1)[0][:40]
    return "?"


def _san_worker(chunk, st: Stats):
    pav = san.parse_and_validate
    schema = PLANNER_V1
    reasons = {}
    total = 0
    accepted = 0

    def strings(space, n, prefix):
        if space in ("A", "B"):
            toks = ALPHA[space]
            pre = "".join(toks[i] for i in prefix)
            join = "".join
            for t in itertools.product(toks, repeat=n - len(prefix)):
                yield pre + join(t)
        else:
            i, j = n
            comp = COMPOSITES[prefix[0]][1]
            if len(prefix) == 2:
                heads = itertools.product([WRAP[prefix[1]]], *([WRAP] * (i - 1)))
            else:
                heads = itertools.product(WRAP, repeat=i)
            tails = ["".join(t) for t in itertools.product(WRAP, repeat=j)]
            for h in heads:
                hc = "".join(h) + comp
                for t in tails:
                    yield hc + t

    for space, n, prefix in chunk:
        for s in strings(space, n, prefix):
            total += 1
            try:
                ok, obj = pav(s, schema)
            except BaseException as e:  # noqa - totality is the property
                if isinstance(e, (KeyboardInterrupt, SystemExit)):
                    raise
                viol(st, "sanitiser:raises:%s" % type(e).__name__, "parse_and_validate raised %r on %s" % (e, _short(s)),
                             _san_case(space, s))
                reasons["RAISED"] = reasons.get("RAISED", 0) + 1
                continue
            if ok:
                accepted += 1
                res, _ = check_string(s)
                for sig, what in res:
                    viol(st, sig, what, _san_case(space, s))
                if accepted % 20000 == 1:
                    st.sample(_san_case(space, s))
                reasons["ACCEPTED"] = reasons.get("ACCEPTED", 0) + 1
            else:
                k = obj.split(":", 1)[0] if type(obj) is str else "?"
                reasons[k] = reasons.get(k, 0) + 1
    st.add("transitions", total)
    st.add("validated", total)
    st.add("states", total)
    st.add("san_strings", total)
    st.add("san_accepted", accepted)
    st.add("nontrivial", accepted)
    for k, v in reasons.items():
        st.add("san_outcome[%s]" % k[:48], v)
        st.distinct("outcomes", ("san", k[:48]))


def _san_case(space, s):
    # store long strings compactly as a token list over ALL tokens (longest match first)
    toks = sorted(set(FULL + WRAP), key=len, reverse=True)
    names = {t: i for i, t in enumerate(FULL + [w for w in WRAP if w not in FULL])}
    if len(s) <= 400:
        return {"kind": "san", "text": s}
    out = []
    i = 0
    while i < len(s):
        for t in toks:
            if s.startswith(t, i):
                out.append(names[t])
                i += len(t)
                break
        else:
            return {"kind": "san", "text": s}
    return {"kind": "san", "tokens": out}


def _san_text(case):
    if "text" in case:
        return case["text"]
    allt = FULL + [w for w in WRAP if w not in FULL]
    return "".join(allt[i] for i in case["tokens"])


# ---- acceptor vs implementation on all short strings (strictness gap is reported, not judged) ----
def _gap_worker(chunk, st: Stats):
    for a in chunk:
        for n in (1, 2, 3):
            for t in itertools.product(FULL, repeat=n - 1):
                s = FULL[a] + "".join(t)
                try:
                    ok, _ = san.parse_and_validate(s, PLANNER_V1)
                except BaseException:  # noqa (reported by the main leg)
                    continue
                ra = ref_acceptable(s)
                st.add("gap_compared")
                if ra and ok:
                    st.add("gap_both_accept")
                elif ra and not ok:
                    st.add("gap_reference_accepts_impl_rejects")
                elif ok and not ra:
                    st.add("gap_impl_accepts_reference_rejects")


# ---- non-string inputs, sanitize_plan, plan_with_llm ----
NON_STRINGS = [None, 0, 1.5, b'{"plan":[],"rationale":"r"}', ["x"], {"plan": [], "rationale": "r"}, True, ("a",), object]
MISSING = "<missing>"
SP_OPS = [MISSING, [], ["a"], ["a", ""], [" "], [1], "x", None, 5, {"a": 1}, [["a"]], [None]]
SP_REF = [MISSING, True, False, 1, 0, 2, "yes", " FALSE ", "maybe", None, [], 1.0, float("nan"), {"a": 1}]


def check_sanitize_plan(oi, ri, none_dict=False):
    if none_dict:
        d = None
    else:
        d = {}
        if SP_OPS[oi] is not MISSING:
            d["ops"] = copy.deepcopy(SP_OPS[oi])
        if SP_REF[ri] is not MISSING:
            d["reflection"] = copy.deepcopy(SP_REF[ri])
    d0 = repr(d)
    errors = []
    try:
        r = san.sanitize_plan(d, errors)
    except BaseException as e:  # noqa
        if isinstance(e, (KeyboardInterrupt, SystemExit)):
            raise
        return [("sanitize_plan:raises:%s" % type(e).__name__, "sanitize_plan(%s) raised %r" % (d0, e))], "raise"
    out = []
    if repr(d) != d0:
        out.append(("sanitize_plan:mutates-input", "input %s became %r" % (d0, d)))
    if not (isinstance(r, dict) and isinstance(r.get("reflection"), bool)):
        out.append(("sanitize_plan:reflection-not-bool", "sanitize_plan(%s) returned %r" % (d0, r)))
    return out, (bool(errors), r.get("reflection") if isinstance(r, dict) else None)


LLM_RAW_EXTRA = [None, 5, b"{}", ["x"], {"plan": []}]


def check_plan_with_llm(raw, shape):
    """raw: adapter answer; shape: 'obj' (result.text) | 'dict' ({'text':..}) | 'raise'"""
    class _A:
        def generate(self, prompt, max_tokens=0, temperature=0.0):
            if shape == "raise":
                raise RuntimeError("down")
            if shape == "dict":
                return {"text": raw}
            return types.SimpleNamespace(text=raw)

    orig = t3_policy._get_llm_adapter_from_cfg
    t3_policy._get_llm_adapter_from_cfg = lambda cfg: _A()
    state = types.SimpleNamespace(logs=[])
    ctx = types.SimpleNamespace(turn_id=1, agent_id="A", cfg={"t3": {"backend": "llm"}})
    try:
        try:
            r = t3_policy.plan_with_llm(ctx, state, {"t3": {"backend": "llm", "llm": {"provider": "fixture"}}})
        finally:
            t3_policy._get_llm_adapter_from_cfg = orig
    except BaseException as e:  # noqa
        if isinstance(e, (KeyboardInterrupt, SystemExit)):
            raise
        return [("plan_with_llm:raises:%s" % type(e).__name__, "plan_with_llm raised %r for adapter answer %s (%s)" % (e, _short(raw), shape))], "raise"
    if not isinstance(r, dict):
        return [("plan_with_llm:non-dict", "returned %r" % (r,))], "bad"
    fallback = r.get("plan") == [] and str(r.get("rationale", "")).startswith("fallback")
    if fallback:
        return [], "fallback"
    out = []
    if shape == "raise" or not isinstance(raw, str) or not ref_acceptable(raw):
        out.append(("plan_with_llm:passes-unacceptable-text", "adapter answer %s (%s) produced plan %s" % (_short(raw), shape, _short(J(r)))))
    if not within_limits(r):
        out.append(("plan_with_llm:plan-outside-limits", "adapter answer %s produced %s" % (_short(raw), _short(J(r)))))
    return out, "accepted"


def check_assembled(world, text, maxops, slice_cap):
    """The per-slice op cap reaches the planner through the REAL bundle assembly (ctx.slice_budgets -> make_plan_bundle ->
    deliberate / rag_once), not only through a hand-built bundle."""
    from mc import world as W
    from clematis.engine.orchestrator import core as orch_core
    from clematis.engine.stages import t1 as t1m
    from clematis.engine.stages.t2 import core as t2c
    W.reset_globals()
    cfg = W.make_cfg({"t3": {"max_ops_per_turn": maxops}, "t1": {"cache": {"enabled": False}}, "t2": {"cache": {"enabled": False}}})
    state = W.make_world(world)
    extra = {} if slice_cap is None else {"slice_budgets": {"t3_ops": slice_cap}}
    ctx = W.make_ctx(cfg, "A", 1, **extra)
    t1 = t1m.t1_propagate(ctx, state, text)
    t2 = t2c.t2_semantic(ctx, state, text, t1)
    bundle = orch_core.make_plan_bundle(ctx, state, t1, t2)
    cap = maxops if slice_cap is None else min(maxops, slice_cap)
    out = []
    plan = t3_policy.deliberate(bundle)
    n = len(list(getattr(plan, "ops", []) or []))
    if n > cap:
        out.append(("assembled:ops-exceed-slice-cap", "make_plan_bundle + deliberate: %d ops with max_ops_per_turn=%d and slice t3_ops=%r "
                    "(world %s, text %r)" % (n, maxops, slice_cap, world, text)))
    plan2, _m = t3_legacy.rag_once(bundle, plan, lambda payload: {"retrieved": [], "metrics": {}}, already_used=False)
    n2 = len(list(getattr(plan2, "ops", []) or []))
    if n2 > cap:
        out.append(("assembled:ops-exceed-slice-cap:post-rag", "make_plan_bundle + rag_once: %d ops with max_ops_per_turn=%d and slice t3_ops=%r "
                    "(world %s, text %r)" % (n2, maxops, slice_cap, world, text)))
    return out, (n, n2)


def _misc_worker(chunk, st: Stats):
    for item in chunk:
        kind = item[0]
        if kind == "assembled":
            _, world, text, maxops, slice_cap = item
            res, oc = check_assembled(world, text, maxops, slice_cap)
            st.add("transitions", 2); st.add("validated", 2); st.add("states")
            st.add("assembled_bundles")
            st.distinct("outcomes", ("assembled", oc))
            for sig, what in res:
                viol(st, sig, what, {"kind": "assembled", "world": world, "text": text, "maxops": maxops, "slice": slice_cap})
            continue
        if kind == "nonstr":
            v = NON_STRINGS[item[1]]
            res, ok = check_string(v)
            st.add("transitions"); st.add("validated"); st.add("states")
            st.distinct("outcomes", ("nonstr", ok))
            for sig, what in res:
                viol(st, sig, what, {"kind": "nonstr", "index": item[1]})
        elif kind == "sp":
            res, oc = check_sanitize_plan(item[1], item[2], item[3])
            st.add("transitions"); st.add("validated"); st.add("states")
            st.distinct("outcomes", ("sanitize_plan", repr(oc)))
            for sig, what in res:
                viol(st, sig, what, {"kind": "sp", "ops": item[1], "ref": item[2], "none": item[3]})
        elif kind == "llm":
            _, idx, shape = item
            for raw_i in idx:
                raw = _llm_raw(raw_i)
                res, oc = check_plan_with_llm(raw, shape)
                st.add("transitions"); st.add("validated"); st.add("states")
                st.add("plan_with_llm_calls")
                if oc == "accepted":
                    st.add("plan_with_llm_accepted")
                st.distinct("outcomes", ("plan_with_llm", oc))
                for sig, what in res:
                    viol(st, sig, what, {"kind": "llm", "raw": raw_i, "shape": shape})


def _llm_raw(raw_i):
    """raw_i: ('x', k) extra non-string | ('t', i) | ('t', i, j) tokens of FULL"""
    if raw_i[0] == "x":
        return LLM_RAW_EXTRA[raw_i[1]]
    return "".join(FULL[i] for i in raw_i[1:])


# =====================================================================================================
# (D2) documented limits x how the length is made up
# =====================================================================================================
# Leg (D) meets every limit with ONE kind of content: a solid run of one ASCII letter (201 x "y", 2001 x "w", 17 x "i").  A limit
# on "the length of a string" can be measured on many things that coincide for such content and differ otherwise: the value as
# returned vs a trimmed / whitespace-collapsed copy, code points vs bytes vs UTF-16 units, the decoded value vs the JSON text that
# encodes it (escapes), distinct vs all items.  This leg therefore enumerates, for every limited field, the product
#     {core length c around the limit} x {padding length w} x {kind of core character} x {kind of padding character}
#     x {where the padding sits} x {sibling content of the object} x {wrapper of the object}
# and runs every resulting text through the sanitiser (and through plan_with_llm, which hands the sanitiser's object on).  The oracle
# is the one of leg (D): never raises; ok => the text is one JSON object within the documented limits for the independent acceptor
# AND the returned object is within the limits; lengths in code points (JSON Schema maxLength).
LIMIT_FIELDS = {"item": LIM_ITEM_LEN, "rationale": LIM_RAT}
# one unit = the JSON spelling of exactly ONE code point of the decoded value
CORE_KINDS = [("ascii", "p"), ("latin", "\u00e9"), ("escaped-ascii", "\\u0070"), ("astral", "\U0001F600"),
              ("astral-escaped", "\\ud83d\\ude00")]
PAD_KINDS = [("space", [" "]), ("esc-tab", ["\\t"]), ("esc-newline", ["\\n"]), ("esc-cr", ["\\r"]), ("escaped-space", ["\\u0020"]),
             ("no-break-space", ["\u00a0"]), ("ideographic-space", ["\u3000"]), ("mixed-whitespace", [" ", "\\n", "\\t", "\\r", "\u00a0", "\\u0020"]),
             ("raw-tab", ["\t"])]            # raw-tab: a literal control character inside the string = not JSON at all
PAD_NOT_JSON = ("raw-tab",)
PLACES = ["lead", "trail", "both", "interior"]
ITEM_CTX = ["only", "first-of-2", "last-of-16"]
RAT_CTX = ["empty-plan", "full-plan"]
WRAPS_QUICK = ["bare", "fenced-json"]
WRAPS_THOROUGH = ["bare", "fenced-json", "fenced-untagged", "bare-in-whitespace"]
_AT_LIMIT_ITEM = '"' + "p" * LIM_ITEM_LEN + '"'


def limit_lengths(field, thorough):
    """(core lengths, pad lengths) around the limit M of the field"""
    M = LIMIT_FIELDS[field]
    cs = [0, 1, M - 1, M, M + 1]
    ws = [0, 1, 2, M, 3 * M + 100]
    if thorough:
        cs += [2, M // 2, 2 * M]
        ws += [3, M - 1, M + 1]
    return sorted(cs), sorted(ws)


def limit_value(core, c, pad, w, place):
    """JSON spelling (with quotes) of a string whose decoded value has c core characters and w padding characters, or None when
    the placement is degenerate for these lengths (would repeat another placement)."""
    cu = dict(CORE_KINDS)[core]
    pu = dict(PAD_KINDS)[pad]
    pads = [pu[i % len(pu)] for i in range(w)]
    if w == 0:
        if place != "lead" or pad != PAD_KINDS[0][0]:
            return None
        return '"' + cu * c + '"'
    if c == 0 and place != "lead":
        return None
    if place == "lead":
        body = "".join(pads) + cu * c
    elif place == "trail":
        body = cu * c + "".join(pads)
    elif place == "both":
        if w < 2:
            return None
        body = "".join(pads[:w // 2]) + cu * c + "".join(pads[w // 2:])
    else:
        if c < 2:
            return None
        body = cu * (c // 2) + "".join(pads) + cu * (c - c // 2)
    return '"' + body + '"'


def limit_wrap(body, wrap):
    if wrap == "bare":
        return body
    if wrap == "fenced-json":
        return "```json\n" + body + "\n```"
    if wrap == "fenced-untagged":
        return "```\n" + body + "\n```"
    if wrap == "bare-in-whitespace":
        return " \n\t" + body + "\r\n "
    raise HarnessError("unknown wrapper %r" % wrap)


def limit_text(field, sval, ctx, wrap):
    if field == "item":
        items = {"only": [sval], "first-of-2": [sval, '"x"'], "last-of-16": [_AT_LIMIT_ITEM] * 15 + [sval]}[ctx]
        body = '{"plan":[' + ",".join(items) + '],"rationale":"r"}'
    else:
        plan = {"empty-plan": "", "full-plan": ",".join([_AT_LIMIT_ITEM] * 16)}[ctx]
        body = '{"plan":[' + plan + '],"rationale":' + sval + '}'
    return limit_wrap(body, wrap)


# ---- number of plan items x what the items are ----
COUNT_N_QUICK = [0, 1, 15, 16, 17, 33]
COUNT_N_THOROUGH = [0, 1, 2, 15, 16, 17, 18, 32, 33, 64]
COUNT_ITEMS = [
    ("identical", lambda i: '"x"'),
    ("distinct", lambda i: '"s%d"' % i),
    ("padded-identical", lambda i: '" x "'),
    ("at-limit-distinct", lambda i: '"%03d' % i + "p" * (LIM_ITEM_LEN - 3) + '"'),
    ("every-other-blank", lambda i: '" "' if i % 2 else '"x"'),
    ("every-other-empty", lambda i: '""' if i % 2 else '"x"'),
    ("every-other-null", lambda i: 'null' if i % 2 else '"x"'),
]


def count_text(n, ik, wrap):
    f = dict(COUNT_ITEMS)[ik]
    return limit_wrap('{"plan":[' + ",".join(f(i) for i in range(n)) + '],"rationale":"r"}', wrap)


def limit_case_text(case):
    if case["field"] == "count":
        return count_text(case["n"], case["items"], case["wrap"])
    sval = limit_value(case["core"], case["c"], case["pad"], case["w"], case["place"])
    if sval is None:
        raise HarnessError("degenerate limit case %s" % J(case))
    return limit_text(case["field"], sval, case["ctx"], case["wrap"])


def _limit_sig(sig, case):
    if not (sig.startswith("sanitiser:accepts") or sig.startswith("sanitiser:returns") or sig.startswith("plan_with_llm:p")):
        return sig
    if case["field"] == "count":
        return "%s:plan-count" % sig
    return "%s:%s-length:%s" % (sig, case["field"], "solid" if case["w"] == 0 else "padded")


def check_limit_case(case, shapes):
    """All oracles on one text of leg (D2).  Returns (violations, accepted?, text)."""
    text = limit_case_text(case)
    res, ok = check_string(text)
    for shape in shapes:
        r, _oc = check_plan_with_llm(text, shape)
        res = res + r
    desc = "; case=%s" % J(case)
    return [(_limit_sig(sig, case), what + desc) for sig, what in res], ok, text


def limit_items(thorough):
    wraps = WRAPS_THOROUGH if thorough else WRAPS_QUICK
    items = []
    for field in sorted(LIMIT_FIELDS):
        cs, _ws = limit_lengths(field, thorough)
        for core, _u in CORE_KINDS:
            for ctx in (ITEM_CTX if field == "item" else RAT_CTX):
                for wrap in wraps:
                    for c in cs:
                        items.append(("len", field, core, ctx, wrap, c))
    for n in (COUNT_N_THOROUGH if thorough else COUNT_N_QUICK):
        for wrap in wraps:
            items.append(("count", n, wrap))
    return items


def _limit_worker(chunk, st: Stats, thorough):
    shapes = ("obj", "dict") if thorough else ("obj",)
    total = 0

    def one(case, over_by_padding_only=False):
        nonlocal total
        res, ok, text = check_limit_case(case, shapes)
        total += 1
        st.add("plan_with_llm_calls", len(shapes))
        if ok:
            st.add("limit_accepted"); st.add("nontrivial")
            if case["field"] != "count" and case["w"] > 0:
                st.add("limit_accepted_with_padding")
        if over_by_padding_only:
            st.add("limit_over_by_padding_only")
        cls = case["field"] if case["field"] == "count" else "%s:%s" % (case["field"], "solid" if case["w"] == 0 else "padded")
        st.distinct("outcomes", ("limit", cls, "accepted" if ok else "rejected"))
        for sig, what in res:
            viol(st, sig, what, dict(case, kind="limit"))

    for item in chunk:
        if item[0] == "count":
            _, n, wrap = item
            for ik, _f in COUNT_ITEMS:
                one({"field": "count", "n": n, "items": ik, "wrap": wrap})
            continue
        _, field, core, ctx, wrap, c = item
        M = LIMIT_FIELDS[field]
        _cs, ws = limit_lengths(field, thorough)
        for w in ws:
            for pad, _u in PAD_KINDS:
                for place in PLACES:
                    if limit_value(core, c, pad, w, place) is None:
                        continue
                    one({"field": field, "core": core, "c": c, "pad": pad, "w": w, "place": place, "ctx": ctx, "wrap": wrap},
                        over_by_padding_only=(1 <= c <= M < c + w and pad not in PAD_NOT_JSON))
    st.add("transitions", total * (1 + len(shapes)))
    st.add("validated", total * (1 + len(shapes)))
    st.add("states", total)
    st.add("limit_texts", total)
    if chunk and chunk[0][0] == "len":
        _, field, core, ctx, wrap, c = chunk[0]
        st.sample({"kind": "limit", "field": field, "core": core, "c": c, "pad": "space", "w": 1, "place": "lead", "ctx": ctx, "wrap": wrap})


def _selfcheck_limit_builder():
    """machinery check: the spelling built by limit_value decodes (for the reference recogniser) to exactly c + w characters"""
    for core, _u in CORE_KINDS:
        for pad, _p in PAD_KINDS:
            for place in PLACES:
                for c, w in ((0, 3), (1, 1), (2, 7), (5, 0), (4, 2)):
                    sv = limit_value(core, c, pad, w, place)
                    if sv is None:
                        continue
                    try:
                        v = strict_json(sv)
                    except _Bad:
                        if pad in PAD_NOT_JSON:
                            continue
                        raise HarnessError("limit_value builds a non-JSON spelling: %r" % sv)
                    if pad in PAD_NOT_JSON or not isinstance(v, str) or len(v) != c + w:
                        raise HarnessError("limit_value(%s,%d,%s,%d,%s) decodes to %r" % (core, c, pad, w, place, v))


# =====================================================================================================
# (D3) kind of code point x where it sits
# =====================================================================================================
# Legs (D) and (D2) spell every text with ASCII plus four well-formed non-ASCII characters that always sit INSIDE a JSON string
# value.  "All strings offered to the sanitiser" are Python ``str`` values, and a ``str`` can hold code points that are unremarkable
# for ``len`` / slicing / ``json.loads`` and special for everything else a sanitiser might do with the text (encode it, normalise
# it, split it into lines, strip it, classify its characters, log it): lone surrogates (the product of a clipped ``\ud83d`` escape in
# a provider envelope or of ``errors="surrogateescape"``), NUL and the other C0/C1 controls, the separators that ``str.strip`` /
# ``str.splitlines`` honour and JSON does not (FS..US, VT, FF, NEL, NBSP, LS, PS, U+3000), format characters (BOM, ZWSP, RLO),
# combining marks, non-characters, private use, non-ASCII digits, the last code point.  This leg enumerates the product
#     {kind of code point} x {raw | spelled as a JSON \u escape} x {how many of them: 1, 2, around each documented limit, beyond
#     the raw-size guard} x {slot of the text: before / after everything, around and inside the fence line, between the JSON
#     tokens, inside the key, inside / as the whole plan item, rationale, reflection string, or alone} x {wrapper}
# (thorough: also every ordered pair of two different kinds in two different slots) and runs every text through
# ``parse_and_validate`` and ``plan_with_llm``; a smaller product goes through ``sanitize_plan``.  Oracle = the one of leg (D):
# never raises; accepted => one JSON object within the documented limits for the independent acceptor, returned object within limits.
def _esc_units(s):
    out = []
    for ch in s:
        o = ord(ch)
        if o >= 0x10000:
            o -= 0x10000
            out.append("\\u%04x\\u%04x" % (0xD800 + (o >> 10), 0xDC00 + (o & 0x3FF)))
        else:
            out.append("\\u%04x" % o)
    return "".join(out)


# (name, group for signatures, the code point(s))
CP_KINDS = [
    ("nul", "control", "\x00"),
    ("c0-control", "control", "\x01"),
    ("escape", "control", "\x1b"),
    ("vertical-tab", "separator", "\x0b"),
    ("form-feed", "separator", "\x0c"),
    ("file-separator", "separator", "\x1c"),
    ("unit-separator", "separator", "\x1f"),
    ("delete", "control", "\x7f"),
    ("c1-next-line", "separator", "\x85"),
    ("c1-control", "control", "\x9f"),
    ("no-break-space", "separator", "\xa0"),
    ("latin-letter", "plain", "\xe9"),
    ("combining-mark", "format", "\u0301"),
    ("arabic-indic-digit", "plain", "\u0661"),
    ("zero-width-space", "format", "\u200b"),
    ("line-separator", "separator", "\u2028"),
    ("paragraph-separator", "separator", "\u2029"),
    ("right-to-left-override", "format", "\u202e"),
    ("ideographic-space", "separator", "\u3000"),
    ("high-surrogate", "surrogate", "\ud83d"),
    ("low-surrogate", "surrogate", "\udc80"),
    ("reversed-surrogate-pair", "surrogate", "\ude00\ud83d"),
    ("private-use", "plain", "\ue000"),
    ("byte-order-mark", "format", "\ufeff"),
    ("fullwidth-digit", "plain", "\uff11"),
    ("noncharacter", "plain", "\uffff"),
    ("astral", "plain", "\U0001F600"),
    ("last-code-point", "plain", "\U0010ffff"),
]
CP_FORMS = ["raw", "escaped"]
CP_BODY_SLOTS = ["lead", "after-open-brace", "in-key", "before-colon", "after-open-bracket", "in-item", "whole-item", "after-item",
                 "after-comma", "after-colon", "in-rationale", "whole-rationale", "in-reflection-string", "before-close-brace", "trail",
                 "alone"]
CP_FENCE_SLOTS = ["before-fence", "in-fence-tag", "after-fence"]
CP_WRAPS_QUICK = ["bare", "fenced-json"]
CP_WRAPS_THOROUGH = ["bare", "fenced-json", "fenced-untagged"]
CP_COUNTS_QUICK = [1, 2, LIM_ITEM_LEN, LIM_ITEM_LEN + 1, 20001]
CP_COUNTS_THOROUGH = [1, 2, 3, LIM_ITEM_LEN - 1, LIM_ITEM_LEN, LIM_ITEM_LEN + 1, LIM_RAT - 1, LIM_RAT, LIM_RAT + 1, 20001]
_CP_BY_NAME = {k: (g, u) for k, g, u in CP_KINDS}
assert len(_CP_BY_NAME) == len(CP_KINDS)


def cp_slots(wrap):
    return CP_BODY_SLOTS + (CP_FENCE_SLOTS if wrap != "bare" else [])


def cp_unit(kind, form):
    u = _CP_BY_NAME[kind][1]
    return u if form == "raw" else _esc_units(u)


def cp_text(ins, wrap):
    """ins: mapping slot -> inserted text.  The text without insertions is a valid planner object in the given wrapper."""
    g = lambda name: ins.get(name, "")   # noqa: E731
    if "alone" in ins:
        body = ins["alone"]
    else:
        item = '"' + ("" if "whole-item" in ins else "x") + g("in-item") + g("whole-item") + '"'
        rat = '"' + ("" if "whole-rationale" in ins else "r") + g("in-rationale") + g("whole-rationale") + '"'
        refl = (',"reflection":"true' + ins["in-reflection-string"] + '"') if "in-reflection-string" in ins else ""
        body = (g("lead") + "{" + g("after-open-brace") + '"pl' + g("in-key") + 'an"' + g("before-colon") + ":[" + g("after-open-bracket")
                + item + g("after-item") + "]," + g("after-comma") + '"rationale":' + g("after-colon") + rat + refl
                + g("before-close-brace") + "}" + g("trail"))
    if wrap == "bare":
        if any(s in ins for s in CP_FENCE_SLOTS):
            raise HarnessError("fence slot without a fence: %r" % sorted(ins))
        return body
    tag = {"fenced-json": "json", "fenced-untagged": ""}.get(wrap)
    if tag is None:
        raise HarnessError("unknown wrapper %r" % wrap)
    return g("before-fence") + "```" + tag + g("in-fence-tag") + "\n" + body + "\n```" + g("after-fence")


def cp_case_text(case):
    if case["kind"] == "cp":
        return cp_text({case["slot"]: cp_unit(case["cp"], case["form"]) * int(case["count"])}, case["wrap"])
    if case["kind"] == "cp2":
        return cp_text({case["slot"]: cp_unit(case["cp"], "raw"), case["slot2"]: cp_unit(case["cp2"], "raw")}, case["wrap"])
    raise HarnessError("not a code-point case: %s" % J(case))


def _cp_sig(sig, case):
    if not (sig.startswith("sanitiser:accepts") or sig.startswith("sanitiser:returns") or sig.startswith("plan_with_llm:p")):
        return sig
    grp = _CP_BY_NAME[case["cp"]][0]
    if case["kind"] == "cp2" and _CP_BY_NAME[case["cp2"]][0] != grp:
        grp = "mixed"
    return "%s:code-point:%s" % (sig, grp)


def check_cp_case(case, shapes):
    """All oracles on one text of leg (D3).  Returns (violations, accepted?)."""
    text = cp_case_text(case)
    res, ok = check_string(text)
    for shape in shapes:
        r, _oc = check_plan_with_llm(text, shape)
        res = res + r
    desc = "; case=%s" % J(case)
    return [(_cp_sig(sig, case), what + desc) for sig, what in res], ok


def check_cp_sanitize_plan(kind, form, oshape, rshape):
    """sanitize_plan (the dict-level sanitiser) on op / reflection strings that carry the code point."""
    u = cp_unit(kind, form)
    d = {}
    if oshape != "absent":
        d["ops"] = {"with": ["a" + u], "only": [u], "mixed": ["a", u, "b" + u + "c"]}[oshape]
    if rshape != "absent":
        d["reflection"] = {"true-with": "true" + u, "with-false": u + "false", "only": u}[rshape]
    d0 = copy.deepcopy(d)
    errors = []
    try:
        r = san.sanitize_plan(d, errors)
    except BaseException as e:  # noqa
        if isinstance(e, (KeyboardInterrupt, SystemExit)):
            raise
        return [("sanitize_plan:raises:%s" % type(e).__name__, "sanitize_plan(%r) raised %r" % (d0, e))], "raise"
    out = []
    if d != d0:
        out.append(("sanitize_plan:mutates-input", "input %r became %r" % (d0, d)))
    if not (isinstance(r, dict) and isinstance(r.get("reflection"), bool)):
        out.append(("sanitize_plan:reflection-not-bool", "sanitize_plan(%r) returned %r" % (d0, r)))
    return out, (bool(errors), r.get("reflection") if isinstance(r, dict) else None)


CP_SP_OPS = ["absent", "with", "only", "mixed"]
CP_SP_REF = ["absent", "true-with", "with-false", "only"]


def cp_items(thorough):
    wraps = CP_WRAPS_THOROUGH if thorough else CP_WRAPS_QUICK
    items = [("one", k, form, wrap) for k, _g, _u in CP_KINDS for form in CP_FORMS for wrap in wraps]
    items += [("sp", k) for k, _g, _u in CP_KINDS]
    if thorough:
        items += [("two", k, slot, wrap) for k, _g, _u in CP_KINDS for wrap in wraps for slot in cp_slots(wrap) if slot != "alone"]
    return items


def _cp_worker(chunk, st: Stats, thorough):
    shapes = ("obj", "dict") if thorough else ("obj",)
    counts = CP_COUNTS_THOROUGH if thorough else CP_COUNTS_QUICK
    total = 0

    def one(case):
        nonlocal total
        res, ok = check_cp_case(case, shapes)
        total += 1
        grp = _CP_BY_NAME[case["cp"]][0]
        if ok:
            st.add("cp_accepted"); st.add("nontrivial")
            st.add("cp_accepted[%s]" % grp)
        st.distinct("outcomes", ("cp", grp, "accepted" if ok else "rejected"))
        for sig, what in res:
            viol(st, sig, what, case)

    for item in chunk:
        if item[0] == "one":
            _, k, form, wrap = item
            for slot in cp_slots(wrap):
                for n in counts:
                    one({"kind": "cp", "cp": k, "form": form, "count": n, "slot": slot, "wrap": wrap})
        elif item[0] == "two":
            _, k, slot, wrap = item
            for k2, _g, _u in CP_KINDS:
                if k2 == k:
                    continue
                for slot2 in cp_slots(wrap):
                    if slot2 == slot or slot2 == "alone":
                        continue
                    one({"kind": "cp2", "cp": k, "slot": slot, "cp2": k2, "slot2": slot2, "wrap": wrap})
                    st.add("cp_pair_texts")
        else:
            _, k = item
            for form in CP_FORMS:
                for oshape in CP_SP_OPS:
                    for rshape in CP_SP_REF:
                        res, oc = check_cp_sanitize_plan(k, form, oshape, rshape)
                        st.add("transitions"); st.add("validated"); st.add("states"); st.add("cp_sanitize_plan_calls")
                        st.distinct("outcomes", ("cp-sanitize_plan", repr(oc)))
                        for sig, what in res:
                            viol(st, sig, what, {"kind": "cpsp", "cp": k, "form": form, "ops": oshape, "ref": rshape})
    st.add("transitions", total * (1 + len(shapes)))
    st.add("validated", total * (1 + len(shapes)))
    st.add("plan_with_llm_calls", total * len(shapes))
    st.add("states", total)
    st.add("cp_texts", total)
    if chunk and chunk[0][0] == "one":
        _, k, form, wrap = chunk[0]
        st.sample({"kind": "cp", "cp": k, "form": form, "count": 1, "slot": "in-item", "wrap": wrap})


def _selfcheck_cp_builder():
    """machinery check: without insertions every wrapper holds a valid planner object; an escaped unit decodes to the raw unit; the
    descriptors of this leg (not the texts) are what is stored, so every stored case is plain ASCII."""
    for wrap in CP_WRAPS_THOROUGH:
        if not ref_acceptable(cp_text({}, wrap)):
            raise HarnessError("code-point leg: base text of wrapper %s is not acceptable" % wrap)
    for k, _g, u in CP_KINDS:
        try:
            v = strict_json('"' + _esc_units(u) + '"')
        except _Bad:
            raise HarnessError("code-point leg: escaped spelling of %s is not JSON" % k)
        if v != u:      # (an escaped surrogate PAIR is the astral character itself; a lone or reversed one stays as it is)
            raise HarnessError("code-point leg: escaped spelling of %s decodes to %r" % (k, v))
        J({"cp": k}).encode("ascii")


# =====================================================================================================
# (C) full turns
# =====================================================================================================
class AD(dict):
    def __getattr__(self, k):
        try:
            return self[k]
        except KeyError:
            raise AttributeError(k)

    def __setattr__(self, k, v):
        self[k] = v


def _ad(o):
    if isinstance(o, dict):
        return AD({k: _ad(v) for k, v in o.items()})
    if isinstance(o, list):
        return [_ad(v) for v in o]
    return o


# query text -> unit vector; the single episode cluster lives on axis 0, so cos = first component
Q_VECS = {
    "apple": [1.0, 0.0, 0.0, 0.0],          # 1.0  (>= tau_high)
    "pear": [0.6, 0.8, 0.0, 0.0],           # 0.6  (mid band)
    "fig": [0.375, 0.0, 0.9270248108869579, 0.0],  # 0.375 (< tau_low, above sim_threshold)
    "zzz": [0.0, 0.0, 0.0, 1.0],            # 0.0
}
TEXTS = ["apple", "pear", "fig", "zzz"]


class _Enc:
    def encode(self, texts):
        import numpy as np
        out = []
        for t in texts:
            w = (t or "").split()
            out.append(np.asarray(Q_VECS.get(w[0] if w else "", [0.0, 0.0, 0.0, 1.0]), dtype=np.float32))
        return out


SCRIPTS = ["none", "speak+rr+rr", "rr+rr+rr", "speak-only", "rr-first"]


def _scripted_plan(name, text):
    def rr(q):
        return RequestRetrieveOp(kind="RequestRetrieve", query=q, owner="any", k=2, tier_pref="cluster_semantic", hints={})
    sp = SpeakOp(kind="Speak", intent="question", topic_labels=[], max_tokens=256)
    ops = {"speak+rr+rr": [sp, rr(text), rr("apple")], "rr+rr+rr": [rr(text), rr("pear"), rr("apple")],
           "speak-only": [sp], "rr-first": [rr("apple"), sp]}[name]
    return Plan(version="t3-plan-v1", reflection=False, ops=ops, request_retrieve=None)


def turn_scenarios(thorough):
    rag = [0, 1, 2, 5]
    cache = [True, False, "no-t4"]   # "no-t4": orchestrator cache on and T4/apply off, so turn 2 is a cache hit
    tokens = [1, 2, 256] if thorough else [1, 256]
    maxops = [1, 2, 8] if thorough else [1, 8]
    policy = [None, {"tau_high": 0.875, "tau_low": 0.0}, {"tau_high": 0.5, "tau_low": 0.5}] if thorough else [None, {"tau_high": 0.875, "tau_low": 0.0}]
    templ = [None, "one two three {labels} four {intent} five"]
    for r in rag:
        for c in cache:
            for t in tokens:
                for m in maxops:
                    for pol in policy:
                        for tp in templ:
                            for sc in SCRIPTS:
                                for tx in TEXTS:
                                    if sc != "none" and (pol is not None or tp is not None):
                                        continue  # scripted plans bypass the policy; keep one config row for them
                                    yield {"rag": r, "cache": c, "tokens": t, "maxops": m, "policy": pol, "template": tp,
                                           "script": sc, "text": tx}
    # second product: the budgets BETWEEN 1 and the natural utterance length, on a configured template whose tokens are
    # separated by newline / tab / CRLF as well as spaces (natural length 6 + labels), through the real turn
    for t in (TURN_MID_TOKENS_THOROUGH if thorough else TURN_MID_TOKENS_QUICK):
        for r in (0, 1):
            for tp in ([TURN_WS_TEMPLATE, templ[1]] if thorough else [TURN_WS_TEMPLATE]):
                if tp == templ[1] and t in tokens:
                    continue   # already in the first product
                for tx in TEXTS:
                    yield {"rag": r, "cache": True, "tokens": t, "maxops": 8, "policy": None, "template": tp, "script": "none", "text": tx}


TURN_WS_TEMPLATE = "one two\nthree {labels}\tfour {intent}\r\nfive"
TURN_MID_TOKENS_QUICK = [3, 5, 7]
TURN_MID_TOKENS_THOROUGH = [2, 3, 4, 5, 6, 7, 8, 9]


def _reset_caches():
    t1 = sys.modules.get("clematis.engine.stages.t1")
    if t1 is None:
        import clematis.engine.stages.t1 as t1  # noqa
    t2c = sys.modules.get("clematis.engine.stages.t2.cache")
    if t2c is None:
        import clematis.engine.stages.t2.cache as t2c  # noqa
    for m, names in ((t1, ("_T1_CACHE", "_T1_CACHE_CFG", "_T1_CACHE_KIND")), (t2c, ("_T2_CACHE", "_T2_CACHE_CFG", "_T2_CACHE_KIND"))):
        for nm in names:
            if not hasattr(m, nm):
                raise HarnessError("cache holder %s.%s missing" % (m.__name__, nm))
            setattr(m, nm, None)


def _seams():
    import clematis.engine.orchestrator as orch
    from clematis.engine.orchestrator import core as ocore
    for nm in ("_get_stage_callable", "rag_once", "speak", "_t2_semantic", "run_turn"):
        if not hasattr(ocore, nm):
            raise HarnessError("orchestrator seam %s missing" % nm)
    if not callable(getattr(orch, "t2_semantic", None)):
        raise HarnessError("orchestrator.t2_semantic seam missing")
    return orch, ocore


def run_scenario(sc, scratch):
    """Two consecutive real turns with the same text.  Returns (violations, observations)."""
    from configs.validate import validate_config
    from clematis.graph.store import InMemoryGraphStore
    from clematis.engine.types import Node, Edge
    from clematis.memory.index import InMemoryIndex
    orch, ocore = _seams()
    _reset_caches()
    snap = os.path.join(scratch, "snaps")
    logs = os.path.join(scratch, "logs")
    shutil.rmtree(snap, ignore_errors=True)
    os.makedirs(snap, exist_ok=True)
    os.makedirs(logs, exist_ok=True)
    os.environ["CLEMATIS_LOG_DIR"] = logs
    os.environ["CLEMATIS_SNAPSHOT_DIR"] = snap
    raw = {"t1": {"decay": {"mode": "exp_floor", "rate": 0.6, "floor": 0.05}},
           "t3": {"max_rag_loops": min(sc["rag"], 1), "tokens": sc["tokens"], "max_ops_per_turn": sc["maxops"]},
           "t4": {"snapshot_dir": snap, "cache": {"enabled": bool(sc["cache"])}, "enabled": sc["cache"] != "no-t4"}}
    if sc["policy"] is not None:
        raw["t3"]["policy"] = dict(sc["policy"])
    if sc["template"] is not None:
        raw["t3"]["dialogue"] = {"template": sc["template"]}
    cfg = validate_config(raw)
    validated = sc["rag"] in (0, 1)
    if not validated:
        cfg["t3"]["max_rag_loops"] = sc["rag"]     # outside the validator's range, applied after validation
    store = InMemoryGraphStore()
    store.upsert_nodes("g1", [Node(id="a", label="apple"), Node(id="b", label="pear"), Node(id="c", label="fig")])
    store.upsert_edges("g1", [Edge(id="e1", src="a", dst="b", weight=1.0, rel="supports"),
                              Edge(id="e2", src="b", dst="c", weight=0.5, rel="associates")])
    idx = InMemoryIndex()
    for i, own in enumerate(["A", "A", "world"]):
        idx.add({"id": "ep%d" % i, "owner": own, "text": "note %d about apple" % i, "vec_full": [1.0, 0.0, 0.0, 0.0],
                 "ts": "2025-01-01T00:00:00Z", "aux": {}})
    state = {"version_etag": "0", "store": store, "active_graphs": ["g1"], "mem_index": idx}

    obs = {"t2": [], "rag": [], "speak": [], "logs": []}
    cur = {"turn": 0, "in_rag": False}
    real_t2 = ocore._t2_semantic
    real_rag = ocore.rag_once
    real_speak = ocore.speak

    def t2_counting(ctx, st_, text, t1):
        r = real_t2(ctx, st_, text, t1)
        smax = None
        try:
            smax = float((r.metrics.get("sim_stats") or {}).get("max"))
        except Exception:
            pass
        obs["t2"].append({"turn": cur["turn"], "in_rag": cur["in_rag"], "text": text, "s_max": smax})
        return r

    def rag_obs(bundle, plan, fn, already_used=False):
        cur["in_rag"] = True
        try:
            pre = float(bundle.get("t2", {}).get("metrics", {}).get("sim_stats", {}).get("max", 0.0))
            rp, m = real_rag(bundle, plan, fn, already_used=already_used)
        finally:
            cur["in_rag"] = False
        obs["rag"].append({"turn": cur["turn"], "pre": pre, "used": bool(m.get("rag_used"))})
        return rp, m

    def speak_obs(db, plan):
        u, m = real_speak(db, plan)
        sp_ = _first_speak(plan)
        obs["speak"].append({"turn": cur["turn"], "utter": u, "intent": getattr(sp_, "intent", None),
                             "labels": list(getattr(sp_, "topic_labels", []) or []), "has_speak": sp_ is not None})
        return u, m

    def log_capture(path, payload):
        obs["logs"].append((cur["turn"], os.path.basename(str(path)), payload))

    saved = {"t2": orch.__dict__.get("t2_semantic"), "append": orch.__dict__.get("append_jsonl")}
    had_delib = "t3_deliberate" in orch.__dict__
    saved_delib = orch.__dict__.get("t3_deliberate")
    out = []
    lines = []
    try:
        orch.t2_semantic = t2_counting
        orch.append_jsonl = log_capture
        ocore.rag_once = rag_obs
        ocore.speak = speak_obs
        if sc["script"] != "none":
            orch.t3_deliberate = lambda ctx, st_, bundle: _scripted_plan(sc["script"], sc["text"])
        elif had_delib:
            del orch.__dict__["t3_deliberate"]
        c = _ad(cfg)
        for turn in (1, 2):
            cur["turn"] = turn
            ctx = types.SimpleNamespace(turn_id=turn, agent_id="A", now="2025-01-02T00:00:00Z", now_ms=1735776000000 + turn,
                                        cfg=c, config=c, enc=_Enc())
            try:
                r = orch.run_turn(ctx, state, sc["text"])
                lines.append(getattr(r, "line", None))
            except Exception as e:
                import traceback
                raise HarnessError("real turn crashed in scenario %s: %r\n%s" % (J(sc), e, traceback.format_exc()))
    finally:
        if saved["t2"] is not None:
            orch.t2_semantic = saved["t2"]
        if saved["append"] is not None:
            orch.append_jsonl = saved["append"]
        ocore.rag_once = real_rag
        ocore.speak = real_speak
        if "t3_deliberate" in orch.__dict__:
            del orch.__dict__["t3_deliberate"]
        if hasattr(ocore, "t3_deliberate"):
            try:
                delattr(ocore, "t3_deliberate")
            except Exception:
                pass
        if had_delib:
            orch.t3_deliberate = saved_delib
        shutil.rmtree(snap, ignore_errors=True)
        shutil.rmtree(logs, ignore_errors=True)

    tau_low_default = 0.4
    per_turn = []
    for turn in (1, 2):
        calls = [c_ for c_ in obs["t2"] if c_["turn"] == turn]
        n = len(calls)
        n_ref = len([c_ for c_ in calls if c_["in_rag"]])
        rags = [r_ for r_ in obs["rag"] if r_["turn"] == turn]
        desc = "turn %d of scenario %s: t2 calls=%s" % (turn, J(sc), J(calls))
        vtag = "validated-config" if validated else "max_rag_loops-outside-validator-range"
        if n > 2:
            out.append(("turn:more-than-1+1-retrievals:%s" % vtag, "%d retrieval calls in one turn; %s" % (n, desc)))
        if n_ref > 1 or len([r_ for r_ in rags if r_["used"]]) > 1:
            out.append(("turn:more-than-one-refinement:%s" % vtag, "%d refinement retrievals in one turn; %s" % (n_ref, desc)))
        if sc["rag"] == 0 and (n > 1 or n_ref > 0):
            out.append(("turn:refinement-although-max_rag_loops=0", "%d retrieval calls (%d in refinement); %s" % (n, n_ref, desc)))
        if sc["script"] == "none" and n_ref > 0:
            pre = rags[0]["pre"] if rags else None
            if pre is not None and not (pre < tau_low_default) and sc["policy"] is None:
                out.append(("turn:refinement-not-below-tau_low", "refinement with s_max=%r >= tau_low=%r; %s" % (pre, tau_low_default, desc)))
            if pre is not None and sc["policy"] is not None and not (pre < float(sc["policy"]["tau_low"])):
                out.append(("turn:configured-thresholds-ignored", "t3.policy.tau_low=%r is configured (and validated) but the turn refined retrieval with s_max=%r, i.e. the planner saw other thresholds; %s" % (
                    sc["policy"]["tau_low"], pre, desc)))
        for s_ in [s_ for s_ in obs["speak"] if s_["turn"] == turn]:
            nt = len(str(s_["utter"]).split())
            if sc["script"] == "none" and nt > sc["tokens"]:
                out.append(("turn:utterance-over-budget", "utterance %r has %d tokens > t3.tokens=%d; %s" % (s_["utter"], nt, sc["tokens"], desc)))
            first = [c_ for c_ in calls if not c_["in_rag"]]
            if sc["script"] == "none" and s_["has_speak"] and first and first[0]["s_max"] is not None:
                ev = max([first[0]["s_max"]] + [c_["s_max"] for c_ in calls if c_["in_rag"] and c_["s_max"] is not None])
                hi_, lo_ = 0.8, 0.4
                if sc["policy"] is not None:
                    hi_, lo_ = float(sc["policy"]["tau_high"]), float(sc["policy"]["tau_low"])
                want = ref_intent_class(ev, hi_, lo_)
                got = s_["intent"]
                ok_ = (got == ("assertion" if s_["labels"] else "ack")) if want == "mid" else (got == want)
                if not ok_:
                    if sc["policy"] is not None:
                        out.append(("turn:configured-thresholds-ignored", "t3.policy=%s is configured (and validated) but the spoken intent is %r for s_max=%r (expected the %s band); %s" % (
                            J(sc["policy"]), got, ev, want, desc)))
                    else:
                        out.append(("turn:intent:%s-band" % want, "intent %r for s_max=%r with default thresholds; %s" % (got, ev, desc)))
        if sc["script"] == "none":
            for tn, name, payload in obs["logs"]:
                if tn == turn and name == "t3_plan.jsonl":
                    nops = sum(int(v) for v in (payload.get("ops_counts") or {}).values())
                    if nops > sc["maxops"]:
                        out.append(("turn:ops-exceed-max_ops_per_turn", "%d ops > t3.max_ops_per_turn=%d; %s" % (nops, sc["maxops"], desc)))
        per_turn.append((n, n_ref))
    return out, {"per_turn": per_turn, "lines": lines}


def _turn_worker(chunk, st: Stats, scratch_root):
    import logging
    logging.disable(logging.CRITICAL)
    scratch = os.path.join(scratch_root, "turns-w%d" % os.getpid())
    os.makedirs(scratch, exist_ok=True)
    first = True
    for sc in chunk:
        res, ob = run_scenario(sc, scratch)
        if first:
            res2, ob2 = run_scenario(sc, scratch)
            if J(ob2) != J(ob) or J(res2) != J(res):
                raise HarnessError("full-turn harness nondeterministic on %s: %s vs %s" % (J(sc), J(ob), J(ob2)))
            first = False
        st.add("transitions", 2)
        st.add("validated", 2)
        st.add("turns", 2)
        st.add("states")
        st.distinct("outcomes", ("turn", J(ob["per_turn"])))
        for t in ob["per_turn"]:
            st.add("turns_with_%d_retrievals" % t[0])
        if any(t[1] for t in ob["per_turn"]):
            st.add("nontrivial")
            st.add("turns_with_refinement")
        for sig, what in res:
            viol(st, sig, what, {"kind": "turn", "scenario": sc})
    if chunk:
        st.sample({"kind": "turn", "scenario": chunk[0]})
    shutil.rmtree(scratch, ignore_errors=True)


# =====================================================================================================
def _selfcheck_acceptor():
    """The independent acceptor must itself behave: a few fixed points (machinery check, not a verdict)."""
    good = ['{"plan":["x"],"rationale":"r"}', ' \n{"plan": [ ], "rationale" : "r", "reflection": false}\n', _AT_LIMIT,
            '```json\n{"plan":["x"],"rationale":"r"}\n```', '```\n{"plan":["x"],"rationale":"r"}\n```']
    bad = ['', '{}', '[]', 'NaN', '{"plan":["x"],"rationale":"r"} ok', 'ok {"plan":["x"],"rationale":"r"}',
           '{"plan":["x"],"rationale":"r"}{"plan":["x"],"rationale":"r"}', '{"plan":["x"],"rationale":"r",}',
           '{"plan":[1],"rationale":"r"}', '{"plan":' + L17 + ',"rationale":"r"}', '{"plan":[],"rationale":' + S2001 + '}',
           '```yaml\n{"plan":["x"],"rationale":"r"}\n```', '{"plan":[],"rationale":"r","reflection":NaN}', DEEP,
           '```json\n{"plan":["x"],"rationale":"r"}\n```\ntrailing', "{'plan':[],'rationale':'r'}", '{"plan":[],"rationale":"r","x":1}']
    for g in good:
        if not ref_acceptable(g):
            raise HarnessError("reference acceptor rejects a documented-valid text: %s" % _short(g))
    for b in bad:
        if ref_acceptable(b):
            raise HarnessError("reference acceptor accepts an invalid text: %s" % _short(b))


def run(run: Run) -> None:
    install_canonical_merge(run)
    _selfcheck_acceptor()
    _selfcheck_limit_builder()
    _selfcheck_cp_builder()
    _seams()
    th = run.thorough
    # (A)+(B)
    params = list(bundle_params(th))
    run.notes["bundles"] = len(params)
    run.pmap(_bundle_worker, params, extra=(th,), chunks=min(len(params), 251))
    # (B2)
    sw = sweep_items(th)
    run.notes["budget_sweep_inputs"] = len(sw)
    run.pmap(_sweep_worker, sw, chunks=min(len(sw), 96))
    run.notes["budget_sweep"] = {"speak_cases": run.n.get("sweep_speak_cases", 0), "llm_speak_cases": run.n.get("sweep_llm_cases", 0),
                                 "truncated_cases": run.n.get("sweep_truncated", 0),
                                 "cases_with_budget_below_natural_length": run.n.get("sweep_below_natural", 0),
                                 "distinct_natural_lengths": len(run.sets.get("sweep_natural_lengths", ())),
                                 "whitespace_kinds": ["as-written"] + SEP_KINDS, "budgets": "1 .. min(natural length, %d) + 1 per input" % SWEEP_MAX}
    # (C)
    scs = list(turn_scenarios(th))
    run.notes["turn_scenarios"] = len(scs)
    run.pmap(_turn_worker, scs, extra=(run.scratch,), chunks=min(len(scs), 64))
    # (D)
    items = san_items(th)
    run.pmap(_san_worker, items, chunks=min(len(items), 16 * 24 - 1))
    run.pmap(_gap_worker, list(range(len(FULL))))
    misc = [("nonstr", i) for i in range(len(NON_STRINGS))]
    misc += [("assembled", w_, tx, mo, sl) for w_ in ("W0", "W1", "W2") for tx in ("apple", "pear fig", "zzz")
             for mo in (1, 3, 8) for sl in (None, 0, 1, 2)]
    misc += [("sp", o, r, False) for o in range(len(SP_OPS)) for r in range(len(SP_REF))] + [("sp", 0, 0, True)]
    llm_raws = [("x", k) for k in range(len(LLM_RAW_EXTRA))] + [("t", i) for i in range(len(FULL))] + \
               [("t", i, j) for i in range(len(FULL)) for j in range(len(FULL))]
    for shape in ("obj", "dict", "raise"):
        rs = llm_raws if shape != "raise" else llm_raws[:1]
        for k in range(0, len(rs), 64):
            misc.append(("llm", rs[k:k + 64], shape))
    run.pmap(_misc_worker, misc)
    # (D2)
    lim = limit_items(th)
    run.pmap(_limit_worker, lim, extra=(th,), chunks=min(len(lim), 16 * 12 - 1))
    run.notes["limit_leg"] = {"texts": run.n.get("limit_texts", 0), "accepted": run.n.get("limit_accepted", 0),
                              "accepted_with_padding": run.n.get("limit_accepted_with_padding", 0),
                              "texts_over_the_limit_by_padding_only": run.n.get("limit_over_by_padding_only", 0),
                              "core_kinds": [k for k, _ in CORE_KINDS], "padding_kinds": [k for k, _ in PAD_KINDS], "placements": PLACES,
                              "lengths": {f: {"core": limit_lengths(f, th)[0], "padding": limit_lengths(f, th)[1]} for f in sorted(LIMIT_FIELDS)},
                              "item_counts": (COUNT_N_THOROUGH if th else COUNT_N_QUICK), "item_kinds": [k for k, _ in COUNT_ITEMS],
                              "wrappers": (WRAPS_THOROUGH if th else WRAPS_QUICK),
                              "entry_points": ["parse_and_validate", "plan_with_llm(result.text)"] + (["plan_with_llm({'text':..})"] if th else [])}
    if run.n.get("limit_accepted_with_padding", 0) == 0 or run.n.get("limit_over_by_padding_only", 0) == 0:
        raise HarnessError("vacuous limit leg: no padded text was accepted / no text exceeds a limit by padding only")
    # (D3)
    cpi = cp_items(th)
    run.pmap(_cp_worker, cpi, extra=(th,), chunks=min(len(cpi), 16 * 12 - 1))
    run.notes["code_point_leg"] = {"texts": run.n.get("cp_texts", 0), "pair_texts": run.n.get("cp_pair_texts", 0),
                                   "accepted": run.n.get("cp_accepted", 0),
                                   "accepted_by_group": {g: run.n.get("cp_accepted[%s]" % g, 0) for g in sorted({g for _k, g, _u in CP_KINDS})},
                                   "sanitize_plan_calls": run.n.get("cp_sanitize_plan_calls", 0),
                                   "kinds": [k for k, _g, _u in CP_KINDS], "forms": CP_FORMS,
                                   "counts": (CP_COUNTS_THOROUGH if th else CP_COUNTS_QUICK),
                                   "slots": CP_BODY_SLOTS + CP_FENCE_SLOTS, "wrappers": (CP_WRAPS_THOROUGH if th else CP_WRAPS_QUICK),
                                   "entry_points": ["parse_and_validate", "plan_with_llm(result.text)"] + (["plan_with_llm({'text':..})"] if th else [])
                                                   + ["sanitize_plan"]}
    if run.n.get("cp_accepted[surrogate]", 0) == 0 and not any(sig.startswith(("sanitiser:", "plan_with_llm:")) for sig in run.viol):
        raise HarnessError("vacuous code-point leg: no text with a surrogate code point was accepted and nothing was reported")

    try:
        json.loads(DEEP)
        deep_note = "parsed?!"
    except RecursionError:
        deep_note = "RecursionError inside json.loads (caught by the sanitiser)"
    except Exception as e:  # noqa
        deep_note = "json.loads raises %s" % type(e).__name__
    run.notes["deep_token_effect"] = deep_note
    run.notes["sanitiser_strings"] = run.n.get("san_strings", 0)
    run.notes["sanitiser_accepted_strings"] = run.n.get("san_accepted", 0)
    run.notes["sanitiser_alphabet_sizes"] = {"A(base)": len(BASE), "B(full)": len(FULL), "W(wrap)": len(WRAP), "composites": len(COMPOSITES)}
    run.notes["sanitiser_bounds"] = ("A^<=6, B^<=4, W^i.comp.W^j i+j<=5" if th else "A^<=5, B^<=4, W^i.comp.W^j i+j<=4")
    if run.n.get("san_accepted", 0) == 0:
        raise HarnessError("vacuous sanitiser leg: no enumerated string was accepted")
    run.rule = ("(A) full product of bundle dimensions (thresholds x s_max around thresholds x labels x touched nodes around eps_edit x op cap x "
                "slice cap x tokens x k_retrieval x owner) -> deliberate + rag_once(5 answers x already_used); non-trivial = plan with >1 op. "
                "(B) speak over 7 templates x 3 styles x 2 snippet sets and llm_speak over 6 adapter answers on the produced plans. "
                "(B2) budget sweep: {summary, question[, mid]} plans x 3 label sets x 7 templates x 3 styles x 3 snippet sets (none, one-line, "
                "multi-line texts) x 6 whitespace kinds between the tokens of template / style / identity / snippet texts (as written, space, "
                "newline, tab, CRLF, mixed), each with EVERY "
                "budget 1 .. n+1 where n = natural token count of that utterance (rendered once with budget 256); same for llm_speak over "
                "4 completions x 6 whitespace kinds x 2 adapter result shapes x {honest, zero} reported count x 3 styles; non-trivial = "
                "budget below the natural length. "
                "(C) two consecutive real turns per scenario (max_rag_loops x orchestrator cache x tokens x max_ops x thresholds x template x "
                "scripted plan x query text, plus a second product {mid budgets} x {template with newline/tab/CRLF separators} x "
                "max_rag_loops {0,1} x query text) with a counting t2_semantic seam; non-trivial = a refinement retrieval happened. "
                "(D) every token sequence within the stated length bounds over the base / composite / wrapper alphabets through "
                "parse_and_validate; non-trivial = accepted strings. "
                "(D2) every documented limit x how the length is made up: for plan item (200) and rationale (2000) the full product "
                "{core length 0, 1, M-1, M, M+1[, 2, M/2, 2M]} x {padding length 0, 1, 2, M, 3M+100[, 3, M-1, M+1]} x 5 kinds of core "
                "character (ASCII, Latin-1, \\u-escaped ASCII, raw astral, escaped surrogate pair) x 9 kinds of padding character (space, "
                "escaped tab / LF / CR / \\u0020, NBSP, U+3000, mixed, raw tab = not JSON) x padding placement (lead, trail, both, interior) x "
                "sibling content (only item / first of 2 / last of 16 at-limit items; empty / full plan) x wrapper (bare, json fence[, untagged "
                "fence, surrounding whitespace]); for the item count {0, 1, 15, 16, 17, 33[, 2, 18, 32, 64]} x 7 kinds of item lists "
                "(identical, distinct, padded, at-limit, every other blank / empty / null); each text through parse_and_validate and "
                "plan_with_llm; non-trivial = accepted texts (texts over a limit by padding only are counted). "
                "(D3) kind of code point x where it sits: %d kinds of code point a Python str can hold (NUL, C0 / C1 controls, DEL, the "
                "separators str.strip / str.splitlines honour and JSON does not (VT, FF, FS, US, NEL, NBSP, LS, PS, U+3000), combining mark, "
                "non-ASCII digits, ZWSP, RLO, BOM, private use, non-character, lone high / lone low / reversed surrogates, astral, U+10FFFF) "
                "x {raw, spelled as JSON \\u escapes} x {1, 2, 200, 201, 20001[, 3, 199, 1999, 2000, 2001]} repetitions x %d slots of a "
                "valid planner text (before / after everything, after / inside the fence line, after the fence, after each structural "
                "token, inside the key, inside / as the whole plan item, rationale, reflection string, alone) x wrapper (bare, json fence[, "
                "untagged fence])[, thorough: every ordered pair of two different kinds in two different slots], each through "
                "parse_and_validate and plan_with_llm; the kinds x forms x 4 op lists x 4 reflection strings through sanitize_plan; "
                "non-trivial = accepted texts." % (len(CP_KINDS), len(CP_BODY_SLOTS) + len(CP_FENCE_SLOTS)))
    run.assume("token budget = t3.tokens >= 1 (the validator rejects tokens < 1; a Speak op with max_tokens=0 is outside the alphabet)")
    run.assume("utterance length is measured in whitespace-separated tokens (str.split), the unit the dialogue stage documents; the "
               "swept separator alphabet is ASCII whitespace (space, tab, LF, CR LF, runs and mixtures); other Unicode spaces occur only "
               "where the odd-whitespace template carries them")
    run.assume("budget sweep: the swept budgets 1 .. n+1 are derived from the natural token count n of the utterance as rendered by the "
               "implementation with budget 256 (n <= %d for every enumerated input); budgets n+2 .. 255 are represented by 256" % SWEEP_MAX)
    run.assume("the documented size limits (json_schemas.py: maxItems 16, maxLength 200 / 2000, minLength 1) are read as JSON Schema reads "
               "them: on the decoded string value as it stands in the object (no trimming, no whitespace folding), in Unicode code points "
               "(an escaped surrogate pair is one character); an implementation that measures a larger unit (bytes, UTF-16 units, the "
               "JSON spelling) only rejects more and is not judged")
    run.assume("sanitiser oracle is one-directional (accepted => acceptable); strings the implementation rejects although a single valid "
               "object is present (raw-size guard, one-line fences) are counted in gap_* but not judged")
    run.assume("full turns run with the scheduler off (slice caps are covered at bundle level) and rule-based backend; retrieval count "
               "is the number of calls through orchestrator.t2_semantic, the only path to T2 in run_turn")
    run.assume("the strings offered to the sanitiser are arbitrary Python str values, including ones that are not well-formed Unicode (lone "
               "surrogates, as json.loads of a clipped \\ud83d escape or errors='surrogateescape' produce them); the code-point leg holds one "
               "representative per class of code point, not every code point; a leading byte order mark may be ignored or rejected (RFC 8259 8.1)")
    run.assume("max_rag_loops in {2,5} is outside the validator's {0,1} and is injected after validation; such findings carry their own signature")


def replay(case):
    import tempfile
    k = case.get("kind")
    if k == "assembled":
        return check_assembled(case["world"], case["text"], case["maxops"], case["slice"])[0]
    if k == "bundle":
        p = dict(case["params"])
        res, _, _ = check_bundle(p)
        # the cross-call purity leg needs company: plan other bundles in between
        d1 = plan_dump(t3_policy.deliberate(mk_bundle(p)))
        for q in itertools.islice(bundle_params(False), 0, 4000, 37):
            t3_policy.deliberate(mk_bundle(q))
        if plan_dump(t3_policy.deliberate(mk_bundle(p))) != d1:
            res.append(("deliberate:impure-across-calls", "plan for the same bundle changed after other bundles were planned; params=%s" % J(p)))
        return res
    if k == "speak":
        p = dict(case["params"])
        res, _ = check_speak(p, case["plan_from"], _plan_for(p, case["plan_from"]), case["template"], case["style"], case["retrieved"])
        return res
    if k == "speak_sweep":
        t = int(case["budget"])
        p = _sweep_params(case["s"], case["labels"], t)
        res, _ = check_speak(p, "deliberate", _sweep_plan(case["s"], case["labels"], t), case["template"], case["style"],
                             case["retrieved"], case["sep"], sweep=True)
        return res
    if k == "llm_sweep":
        res, _ = check_llm_sweep(case["text"], case["sep"], case["shape"], case["reported"], case["style"], int(case["budget"]))
        return res
    if k == "llm_speak":
        p = dict(case["params"])
        res, _ = check_llm_speak(p, case["plan_from"], _plan_for(p, case["plan_from"]), case["adapter"], case["style"], 1)
        return res
    if k == "san":
        res, _ = check_string(_san_text(case))
        return res
    if k == "nonstr":
        res, _ = check_string(NON_STRINGS[case["index"]])
        return res
    if k == "limit":
        c = {kk: v for kk, v in case.items() if kk != "kind"}
        res, _, _ = check_limit_case(c, ("obj", "dict"))
        return res
    if k in ("cp", "cp2"):
        res, _ = check_cp_case(dict(case), ("obj", "dict"))
        return res
    if k == "cpsp":
        res, _ = check_cp_sanitize_plan(case["cp"], case["form"], case["ops"], case["ref"])
        return res
    if k == "sp":
        res, _ = check_sanitize_plan(case["ops"], case["ref"], case.get("none", False))
        return res
    if k == "llm":
        raw_i = tuple(case["raw"])
        res, _ = check_plan_with_llm(_llm_raw(raw_i), case["shape"])
        return res
    if k == "turn":
        d = tempfile.mkdtemp(prefix="c13r", dir="/dev/shm" if os.path.isdir("/dev/shm") else None)
        try:
            import logging
            logging.disable(logging.CRITICAL)
            res, _ = run_scenario(case["scenario"], d)
            return res
        finally:
            shutil.rmtree(d, ignore_errors=True)
    raise HarnessError("unknown replay case kind %r" % k)
