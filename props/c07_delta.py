"""C07 — delta snapshots reconstruct the full payload exactly.

Engine E2 (small-scope enumeration) + E4-style baseline fault menu.

(a) pair level: every ordered pair (base, cur) from a universe U of JSON objects built from a small key
    alphabet (incl. dotted, empty, unicode and reserved-looking keys) and a small value alphabet (scalars that
    are ==-equal but JSON-distinct, lists, dicts one level down).  Oracle: JSON-strict equality of
    apply_delta(base, compute_delta(base, cur)) with cur; inputs unmutated; delta JSON-serialisable and
    deterministic.
(b) file level: write_snapshot_auto(delta_mode) + every reader x every baseline condition.
(c) damage level: one of the files a reader depends on (baseline, delta, the full used as fallback) is damaged at EVERY
    byte position by every kind of a small menu of single-position damages (high bit set, byte zeroed, cut here, byte
    dropped); the harness itself decides, with an independent strict parser, whether the damaged bytes still are a
    snapshot file (header line + body, or one JSON text, strict UTF-8).  Where they are not, every reader has to return
    the full payload exactly or report absence.
(d) write-fault level (E4): the last write of a short history (baseline written again under an existing delta, delta
    written / written again, fall-back full written / written again) runs on the mc.faults proxies and is disturbed once:
    death before every numbered I/O call, every failable call failing, every raw write cut after EVERY byte count (then
    death, or a device that is full from there on).  Every reader x every etag of the history afterwards, and again after
    the same write was repeated undisturbed: the payload written under that etag or absence, never something else.
"""
from __future__ import annotations

import copy
import itertools
import json
import os
import shutil
import types

from mc.runner import Run, Stats

from clematis.engine.util import snapshot_delta as sd
from clematis.engine import snapshot as snap


def J(x):
    try:
        return json.dumps(x, sort_keys=True, ensure_ascii=False)
    except ValueError as e:  # e.g. a circular reference created by aliasing
        return "<unserialisable: %s>" % e


# ---------------------------------------------------------------- universe
def universe(thorough: bool):
    if thorough:
        keys = ["a", "b", "a.b", "", "é", "_adds", "a\\b", "\\"]
        scal = [0, 1, True, None, "x", 1.0, [], [1], {}, [1.0], [True], 0.0, -0.0, [{"a": 1}], [{"a": True}], "x\u2028y", [1, 2], [2, 1]]
        inner_keys = ["a", "b", "a.b", "", "b\\"]
        inner_vals = [0, 1, True, {}]
        vals2_extra = [[1], 1.0, {"a.b": 1}]
    else:
        keys = ["a", "a.b", "", "é", "a\\"]
        scal = [0, 1, True, None, "x", 1.0, [1], {}, [1.0], [True], -0.0, 0.0, [{"a": 1}], [{"a": True}], [1, 2], [2, 1]]
        inner_keys = ["b", "a.b", "", "\\b"]
        inner_vals = [1]
        vals2_extra = []
    vals = list(scal)
    for ik in inner_keys:
        for iv in inner_vals:
            vals.append({ik: iv})
    # a two-level nest so that dict<->scalar replacement and nested walks with 2 inner keys occur
    vals.append({"a": 1, "b": {"c": 2}})
    vals.append({"a": 1, "b": {"c": 3}})
    # two-key objects use a reduced value alphabet (the pair space is quadratic in the universe)
    vals2 = [0, True, "x", {}, {"b": 1}, {"a": 1, "b": {"c": 2}}] + vals2_extra
    objs = [{}]
    for k in keys:
        for v in vals:
            objs.append({k: v})
    for k1, k2 in itertools.combinations(keys, 2):
        for v1 in vals2:
            for v2 in vals2:
                objs.append({k1: v1, k2: v2})
    return objs


def _all_keys(o, acc):
    if isinstance(o, dict):
        for k, v in o.items():
            acc.append(k)
            _all_keys(v, acc)
    return acc


def _strict_scalar_types(o, acc):
    """collect (path, typename, value) of scalars, to classify ==-equal-but-JSON-distinct failures"""
    if isinstance(o, dict):
        for k, v in sorted(o.items()):
            _strict_scalar_types(v, acc)
    elif isinstance(o, list):
        for v in o:
            _strict_scalar_types(v, acc)
    else:
        acc.append(type(o).__name__)
    return acc


def classify(base, cur, got):
    ks = _all_keys(base, []) + _all_keys(cur, [])
    if any("." in k for k in ks):
        return "pair:dotted-key"
    if any(k == "" for k in ks):
        return "pair:empty-key"
    if got == cur and J(got) != J(cur):
        # Python equality holds, JSON-strict equality does not: 1 / True / 1.0 confusions
        return "pair:equal-but-json-distinct-scalars"
    return "pair:other"


def check_pair(base, cur):
    """returns list of (sig, what)"""
    out = []
    b0, c0 = copy.deepcopy(base), copy.deepcopy(cur)
    try:
        d = sd.compute_delta(base, cur)
        d2 = sd.compute_delta(base, cur)
        got = sd.apply_delta(base, d)
    except Exception as e:  # the codec must be total on JSON objects
        return [("pair:raises:" + type(e).__name__, "compute/apply raised %r for base=%s cur=%s" % (e, J(base), J(cur)))]
    if J(base) != J(b0) or J(cur) != J(c0):
        out.append(("pair:mutates-input:" + classify(b0, c0, None).split(":")[1], "inputs mutated: base=%s cur=%s" % (J(b0), J(c0))))
    try:
        if J(d) != J(d2):
            out.append(("pair:delta-nondeterministic", "two deltas differ for base=%s cur=%s" % (J(b0), J(c0))))
    except Exception as e:
        out.append(("pair:delta-not-json", "delta not serialisable: %r" % (e,)))
    if J(got) != J(c0):
        sig = classify(b0, c0, got)
        out.append((sig, "apply_delta(base, compute_delta(base,cur)) != cur: base=%s cur=%s got=%s delta=%s" % (
            J(b0), J(c0), J(got), J(d))))
    return out


def _pair_worker(chunk, st: Stats, objs):
    # chunk = list of base indices
    # the implementation may alias/mutate its inputs: every pair gets fresh objects
    n = len(objs)
    enc = [json.dumps(o) for o in objs]
    for i in chunk:
        for j in range(n):
            base = json.loads(enc[i])
            cur = json.loads(enc[j])
            st.add("transitions")
            st.add("validated")
            res = check_pair(base, cur)
            if i != j:
                st.add("nontrivial")
            if res:
                st.add("pair_failures")
                for sig, what in res:
                    st.violation(sig, what, {"kind": "pair", "base": json.loads(enc[i]), "cur": json.loads(enc[j])})
                st.distinct("outcomes", "fail:" + res[0][0])
            else:
                st.distinct("outcomes", "ok")
        if i % 97 == 0:
            st.sample({"kind": "pair", "base": json.loads(enc[i]), "cur": json.loads(enc[(i * 7 + 3) % n])})


# ---------------------------------------------------------------- file level
class _Store:
    def __init__(self):
        self.w = {}


def _mk_ctx(d):
    return types.SimpleNamespace(cfg={"t4": {"snapshot_dir": d}}, agent_id="A", turn_id=1)


def file_universe(thorough: bool):
    stores = [{}, {"weights": [{"target_kind": "node", "target_id": "n1", "attr": "weight", "value": 0.5}]},
              {"weights": [{"target_kind": "node", "target_id": "n1", "attr": "weight", "value": -0.25}]}]
    gels = [{"nodes": {}, "edges": {}},
            {"nodes": {"a": {"id": "a"}}, "edges": {"a→b": {"src": "a", "dst": "b", "rel": "coact", "weight": 0.5, "id": "a→b",
                                                             "updated_at": None, "attrs": {}}}}]
    # values / keys containing every character str.splitlines() treats as a line boundary (file framing is line based)
    extras = ([None, ("note", "x"), ("k.v", 1), ("sep", "a\u2028b\u2029c\u0085d\x1ce\x0bf\x0cg\r\nh"), ("k\u2028", [1.0, True])] if thorough
              else [None, ("note", "x"), ("sep", "a\u2028b\u2029c\u0085d\rh"), ("k\u2028", [1.0])])
    out = []
    for ver in ("1", "2"):
        for s in stores:
            for g in gels:
                for ex in extras:
                    p = {"version_etag": ver, "store": copy.deepcopy(s), "gel": copy.deepcopy(g), "schema_version": "v1"}
                    if ex:
                        p[ex[0]] = ex[1]
                    out.append(p)
    return out


# "present:live-object": the SAME dict object is written as the full snapshot, mutated in place into `cur` and written again
# in delta mode (how an engine holding one live state would call the writer)
BASELINES = ["present", "present:live-object", "missing", "garbage", "empty", "truncated", "other-etag-only"]
READERS = ["read_snapshot(root,etag)", "read_snapshot(path)", "load_latest_snapshot"]


def _load_state_from(dirpath):
    st = types.SimpleNamespace(store=_Store(), version_etag=None)
    info = snap.load_latest_snapshot(_mk_ctx(dirpath), st)
    return info, {"version": st.version_etag, "w": sorted((list(k), v) for k, v in st.store.w.items()),
                  "graph": getattr(st, "graph", None)}


def check_file(case, scratch):
    """case: {kind:file, base, cur, baseline, reader}"""
    base, cur, bl, reader = case["base"], case["cur"], case["baseline"], case["reader"]
    d = os.path.join(scratch, "c07f")
    shutil.rmtree(d, ignore_errors=True)
    os.makedirs(d)
    out = []
    try:
        try:
            live = copy.deepcopy(base)
            pbase, _ = snap.write_snapshot_auto(d, etag_from=None, etag_to="E1", payload=live, delta_mode=False)
            os.utime(pbase, (1000, 1000))
            if os.path.exists(pbase + ".meta"):
                os.utime(pbase + ".meta", (1000, 1000))
            if bl == "present:live-object":
                live.clear()
                live.update(copy.deepcopy(cur))
                second = live
                bl = "present"
            else:
                second = cur
            pcur, wrote_delta = snap.write_snapshot_auto(d, etag_from="E1", etag_to="E2", payload=second, delta_mode=True)
            os.utime(pcur, (2000, 2000))
        except Exception as e:  # the writer must cope with every JSON payload (baseline is present and intact here)
            return [("file:writer-raises:%s" % type(e).__name__, "write_snapshot_auto raised %r with an intact baseline" % (e,))]
        if not wrote_delta:
            out.append(("file:writer-no-delta-with-baseline", "delta requested with baseline present, full written"))
        # now perturb the baseline
        if bl == "missing":
            os.unlink(pbase)
        elif bl == "garbage":
            with open(pbase, "wb") as f:
                f.write(b"\x00\xff{not json")
            os.utime(pbase, (1000, 1000))
        elif bl == "empty":
            open(pbase, "wb").close()
            os.utime(pbase, (1000, 1000))
        elif bl == "truncated":
            raw = open(pbase, "rb").read()
            with open(pbase, "wb") as f:
                f.write(raw[: max(1, len(raw) - 3)])
            os.utime(pbase, (1000, 1000))
        elif bl == "other-etag-only":
            os.unlink(pbase)
            p3, _ = snap.write_snapshot_auto(d, etag_from=None, etag_to="E0", payload={"version_etag": "0", "zzz": 1}, delta_mode=False)
            os.utime(p3, (500, 500))
        if os.path.exists(pbase + ".meta") and bl != "present":
            pass
        # reference: what loading a full snapshot of cur gives
        dref = os.path.join(scratch, "c07ref")
        shutil.rmtree(dref, ignore_errors=True)
        os.makedirs(dref)
        snap.write_snapshot_auto(dref, etag_from=None, etag_to="E2", payload=cur, delta_mode=False)
        if reader == "load_latest_snapshot":
            _, ref = _load_state_from(dref)
            try:
                info, got = _load_state_from(d)
            except Exception as e:
                return out + [("file:load_latest:raises:%s" % type(e).__name__, "load_latest_snapshot raised %r (baseline %s)" % (e, bl))]
            if os.path.basename(info.get("path") or "") != os.path.basename(pcur):
                out.append(("file:harness-picked-other", "discovery picked %s" % info.get("path")))
                return out
            if info.get("loaded"):
                if J(got) != J(ref):
                    out.append(("file:load_latest_snapshot:baseline-%s:wrong-state" % bl,
                                "load_latest_snapshot reports loaded=True but state %s != full-load state %s" % (J(got), J(ref))))
            else:
                if bl == "present":
                    out.append(("file:load_latest_snapshot:baseline-present:not-loaded", "not loaded although baseline present"))
            return out
        try:
            if reader == "read_snapshot(root,etag)":
                got = snap.read_snapshot(d, "E2")
            else:
                got = snap.read_snapshot(path=pcur)
        except Exception as e:
            if bl == "present":
                out.append(("file:%s:baseline-present:raises" % reader, "raised %r" % (e,)))
            return out  # explicit failure = reported absence
        if J(got) == J(cur):
            return out
        if got == {} and bl != "present":
            return out  # explicit absence
        sig = "file:%s:baseline-%s:wrong-payload" % (reader, bl)
        if bl == "present":
            ks = _all_keys(base, []) + _all_keys(cur, [])
            if any("." in k for k in ks):
                sig += ":dotted-key"
        out.append((sig, "reader returned %s, full payload is %s" % (J(got), J(cur))))
        return out
    finally:
        shutil.rmtree(d, ignore_errors=True)
        shutil.rmtree(os.path.join(scratch, "c07ref"), ignore_errors=True)


def _file_worker(chunk, st: Stats, scratch_root):
    scratch = os.path.join(scratch_root, "w%d" % os.getpid())
    os.makedirs(scratch, exist_ok=True)
    import logging
    logging.disable(logging.CRITICAL)
    import contextlib, io
    for case in chunk:
        st.add("transitions")
        st.add("validated")
        st.add("file_cases")
        if case["base"] != case["cur"]:
            st.add("nontrivial")
        with contextlib.redirect_stderr(io.StringIO()):
            res = check_file(case, scratch)
        for sig, what in res:
            st.violation(sig, what, case)
        st.distinct("outcomes", ("file", case["baseline"], case["reader"], bool(res)))
    st.sample(chunk[0])
    shutil.rmtree(scratch, ignore_errors=True)


# ---------------------------------------------------------------- damage level
# One position of one file is damaged.  The menu holds the damages storage really produces: a flipped high bit (the
# bytes stop being UTF-8), a zeroed byte (a raw control character), a torn write (cut) and a lost byte (drop).
# "none" is the control: the same directory layout, nothing damaged (one case per layout)
DAMAGE_KINDS = ["none", "bit7", "nul", "cut", "drop"]
# which file is hit.  "baseline:before-delta-write" = the baseline is damaged first, THEN the delta-mode writer runs
# (it reads the baseline too); "fallback-full" = baseline gone, a full snapshot of the target etag lies next to the delta
DAMAGE_TARGETS = ["baseline", "baseline:before-delta-write", "delta", "fallback-full"]
# signature class of a damage kind = the layer of the file grammar it breaks (the kind and the byte are in `what` and in the case)
DAMAGE_CLASS = {"none": "intact", "bit7": "not-utf8", "nul": "not-json", "cut": "not-json", "drop": "not-json"}


def _damage(raw: bytes, kind: str, p: int) -> bytes:
    if kind == "none":
        return raw
    if kind == "bit7":
        return raw[:p] + bytes([raw[p] | 0x80]) + raw[p + 1:]
    if kind == "nul":
        return raw[:p] + b"\x00" + raw[p + 1:]
    if kind == "cut":
        return raw[:p]
    if kind == "drop":
        return raw[:p] + raw[p + 1:]
    raise ValueError(kind)


def _json_text(s: str) -> bool:
    try:
        json.loads(s)
        return True
    except ValueError:
        return False


def in_file_grammar(data: bytes) -> bool:
    """Independent of the engine: are these bytes still a snapshot file in one of the two documented layouts
    (canonical header line + LF + body, or a single legacy JSON text), encoded as strict UTF-8 (RFC 8259)?
    Damage that stays inside the grammar cannot be told from a snapshot of another state without checksums and is
    not judged."""
    try:
        text = data.decode("utf-8")
    except UnicodeDecodeError:
        return False
    if _json_text(text):
        return True
    head, sep, rest = text.partition("\n")
    return bool(sep) and _json_text(head) and _json_text(rest)


def _ref_state(scratch, etag, payload):
    dref = os.path.join(scratch, "c07dref")
    shutil.rmtree(dref, ignore_errors=True)
    os.makedirs(dref)
    try:
        snap.write_snapshot_auto(dref, etag_from=None, etag_to=etag, payload=copy.deepcopy(payload), delta_mode=False)
        return _load_state_from(dref)[1]
    finally:
        shutil.rmtree(dref, ignore_errors=True)


def _put(path, data, mtime):
    with open(path, "wb") as f:
        f.write(data)
    os.utime(path, (mtime, mtime))


def damage_unit(scratch, base, cur, target, kinds, positions, readers, emit):
    """Build the directory once, then walk kinds x positions x readers.
    emit(kind, pos, reader, outcome_class, violation_or_None, damaged_bytes); positions=None = every byte of the file.
    Returns the number of positions of the target file (or a list of set-up violations)."""
    d = os.path.join(scratch, "c07d")
    shutil.rmtree(d, ignore_errors=True)
    os.makedirs(d)
    before_write = target == "baseline:before-delta-write"
    try:
        pfull = None
        try:
            pbase, _ = snap.write_snapshot_auto(d, etag_from=None, etag_to="E1", payload=copy.deepcopy(base), delta_mode=False)
            os.utime(pbase, (1000, 1000))
            pcur = None
            if not before_write:
                pcur, _ = snap.write_snapshot_auto(d, etag_from="E1", etag_to="E2", payload=copy.deepcopy(cur), delta_mode=True)
                os.utime(pcur, (2000, 2000))
            if target == "fallback-full":
                os.unlink(pbase)
                pfull, _ = snap.write_snapshot_auto(d, etag_from=None, etag_to="E2", payload=copy.deepcopy(cur), delta_mode=False)
                if pfull != pcur:
                    os.utime(pfull, (1500, 1500))
        except Exception as e:  # nothing is damaged yet
            return [("file:writer-raises:%s" % type(e).__name__, "write_snapshot_auto raised %r with intact files" % (e,))]
        tf, tf_mtime = {"baseline": (pbase, 1000), "baseline:before-delta-write": (pbase, 1000),
                        "delta": (pcur, 2000), "fallback-full": (pfull, 1500 if pfull != pcur else 2000)}[target]
        raw = open(tf, "rb").read()
        keep = set(os.listdir(d))
        ref_cur = _ref_state(scratch, "E2", cur)
        ref_base = _ref_state(scratch, "E1", base)
        for kind in kinds:
            for p in ([0] if kind == "none" else range(len(raw)) if positions is None else positions):
                if not 0 <= p < len(raw):
                    continue
                bad = _damage(raw, kind, p)
                if kind == "none":
                    pass
                elif bad == raw:
                    emit(kind, p, None, "skip:no-change", None, bad)
                    continue
                elif in_file_grammar(bad):
                    emit(kind, p, None, "skip:still-a-snapshot-file", None, bad)
                    continue
                _put(tf, bad, tf_mtime)
                written = pcur
                if before_write:
                    for n in os.listdir(d):
                        if n not in keep:
                            os.unlink(os.path.join(d, n))
                    try:
                        written, _ = snap.write_snapshot_auto(d, etag_from="E1", etag_to="E2", payload=copy.deepcopy(cur), delta_mode=True)
                        os.utime(written, (2000, 2000))
                    except Exception:
                        written = None  # the writer reported the unusable baseline
                for reader in readers:
                    emit(kind, p, reader, *_damage_read(d, reader, written, pbase, cur, ref_cur, ref_base, target, kind), bad)
        return len(raw)
    finally:
        shutil.rmtree(d, ignore_errors=True)


def _damage_read(d, reader, written, pbase, cur, ref_cur, ref_base, target, kind):
    """-> (outcome class, (sig, what) | None).  Absence in any explicit form is fine; so is the exact payload."""
    where = "%s:%s:%s" % (reader, target, DAMAGE_CLASS[kind])
    if reader == "load_latest_snapshot":
        try:
            info, got = _load_state_from(d)
        except Exception:
            return "absent:raises", None
        if not info.get("loaded"):
            return "absent:not-loaded", None
        if J(got) == J(ref_cur):
            return "exact", None
        picked = os.path.basename(info.get("path") or "")
        if written is None or picked != os.path.basename(written):
            # discovery did not take the newest file: an older snapshot that loads as exactly what was written there
            # is a fall-back to a full snapshot, not a wrong reconstruction
            if picked == os.path.basename(pbase) and J(got) == J(ref_base):
                return "older-full", None
        return "wrong", ("damage:%s:wrong-state" % where,
                         "load_latest_snapshot reports loaded=True (picked %s) with state %s; full-load state of the payload is %s" % (
                             picked, J(got), J(ref_cur)))
    try:
        if reader == "read_snapshot(root,etag)":
            got = snap.read_snapshot(d, "E2")
        else:
            if written is None:
                return "absent:nothing-written", None
            got = snap.read_snapshot(path=written)
    except Exception:
        return "absent:raises", None
    if J(got) == J(cur):
        return "exact", None
    if got == {}:
        return "absent:empty", None
    return "wrong", ("damage:%s:wrong-payload" % where, "reader returned %s, full payload is %s" % (J(got), J(cur)))


def damage_universe(thorough: bool):
    """snapshot-shaped payloads (string material in keys and values at several depths, non-ASCII ids) and the ordered
    pairs walked: quick = a 3-cycle plus one identical pair, thorough = all ordered pairs of six payloads"""
    fu = file_universe(thorough)
    n = len(fu)
    if thorough:
        idx = [0, n // 5 + 1, 2 * n // 5 + 2, 3 * n // 5 + 3, 4 * n // 5 - 1, n - 1]
        pay = [fu[i] for i in idx]
        pairs = [(i, j) for i in range(len(pay)) for j in range(len(pay))]
    else:
        pay = [fu[0], fu[n // 2 - 3], fu[n - 1]]
        pairs = [(0, 1), (1, 2), (2, 0), (1, 1)]
    return pay, pairs


def _damage_worker(chunk, st: Stats, scratch_root, pay):
    scratch = os.path.join(scratch_root, "d%d" % os.getpid())
    os.makedirs(scratch, exist_ok=True)
    import logging
    logging.disable(logging.CRITICAL)
    import contextlib, io
    for (i, j, target, kind) in chunk:
        base, cur = pay[i], pay[j]

        def emit(kind, p, reader, outcome, viol, bad, _t=target, _b=base, _c=cur):
            if reader is None:
                st.add("damage_" + outcome.replace(":", "_").replace("-", "_"))
                return
            st.add("transitions")
            st.add("validated")
            st.add("damage_cases")
            st.add("nontrivial")
            st.distinct("states", b"damaged-file:" + _t.encode() + b":" + bad)
            st.distinct("outcomes", ("damage", _t, kind, reader, outcome))
            if viol:
                st.violation(viol[0], viol[1] + " [%s of byte %d of the %s file]" % (kind, p, _t),
                             {"kind": "damage", "base": _b, "cur": _c, "target": _t, "damage": kind, "pos": p, "reader": reader})
        with contextlib.redirect_stderr(io.StringIO()):
            res = damage_unit(scratch, base, cur, target, [kind], None, READERS, emit)
        if isinstance(res, list):
            for sig, what in res:
                st.violation(sig, what, {"kind": "file", "base": base, "cur": cur, "baseline": "present", "reader": READERS[0]})
        else:
            st.notes["damage_max_file_bytes"] = max(st.notes.get("damage_max_file_bytes", 0), res)
    st.sample({"kind": "damage", "base": pay[chunk[0][0]], "cur": pay[chunk[0][1]], "target": chunk[0][2], "damage": chunk[0][3],
               "pos": 7, "reader": READERS[0]})
    shutil.rmtree(scratch, ignore_errors=True)


# ---------------------------------------------------------------- write-fault level
# (d) The WRITER runs under an I/O fault.  A history of writes is laid down undisturbed (the prefix); the next write of
# the history is executed on the mc.faults proxies and disturbed at one point: the process dies before call i (every
# numbered I/O call of the write), call i fails with an errno, a raw write is cut after n bytes and the process dies
# (EVERY n), or a raw write takes n bytes and the next one fails with ENOSPC (a device that fills up; EVERY n).
# Afterwards every reader is asked for every snapshot of the history: the payload that was written under that etag, or
# absence.  Then the same write is repeated undisturbed (the retry after the failure / the restart after the crash) and
# the readers are asked again.  Nothing here knows how the writer lays its bytes down.
from mc import faults as _faults
from clematis.io import atomic as _atomic_mod

# op = ("w", etag_from, etag_to, payload role, delta_mode) | ("rm", etag, layout)
WF_HISTORIES = {
    # the baseline of an existing delta is written again (periodic full snapshot of an unchanged state, a re-run)
    "rewrite-baseline": ([("w", None, "E1", "base", False), ("w", "E1", "E2", "cur", True)], ("w", None, "E1", "base", False)),
    # a delta is written for the first time / once more
    "write-delta": ([("w", None, "E1", "base", False)], ("w", "E1", "E2", "cur", True)),
    "rewrite-delta": ([("w", None, "E1", "base", False), ("w", "E1", "E2", "cur", True)], ("w", "E1", "E2", "cur", True)),
    # the baseline is gone: the delta-mode writer falls back to a full snapshot, which the readers of the delta fall back to
    "write-fallback-full": ([("w", None, "E1", "base", False), ("w", "E1", "E2", "cur", True), ("rm", "E1", "full")],
                            ("w", "E1", "E2", "cur", True)),
    "rewrite-fallback-full": ([("w", None, "E1", "base", False), ("w", "E1", "E2", "cur", True), ("rm", "E1", "full"),
                               ("w", "E1", "E2", "cur", True)], ("w", "E1", "E2", "cur", True)),
}
WF_ROLE_MTIME = {("E1", "full"): 1000, ("E2", "full"): 1500, ("E2", "delta"): 2000}
WF_STRAY_MTIME = 3000   # whatever else lies in the directory is the newest thing there (it was made by the last write)
WF_READERS = ["read_snapshot(root,etag)", "read_snapshot(path)", "load_latest_snapshot", "load_latest_snapshot[last-written-newest]"]
WF_FULL_DEVICE_WRITES = 12   # how many further raw writes (per kind of write call) a full device refuses
_WF_ENG = None


def _wf_engine():
    global _WF_ENG
    if _WF_ENG is None:
        e = _faults.FaultEngine()
        e.install(_atomic_mod, require=False)                       # the atomic writer's os / tempfile / time / Path / open
        e.install(snap, names=("os", "open"))                        # the snapshot module's own file-system calls
        e.install(snap, names=("tempfile", "Path"), require=False)  # ... and these, where the module has them
        _WF_ENG = e
    return _WF_ENG


def _wf_do(d, op, pay, paths):
    if op[0] == "rm":
        os.unlink(paths[(op[1], op[2])])
        paths.pop((op[1], op[2]))
        return None
    _, efrom, eto, role, dm = op
    p, wrote_delta = snap.write_snapshot_auto(d, etag_from=efrom, etag_to=eto, payload=copy.deepcopy(pay[role]), delta_mode=dm)
    paths[(eto, "delta" if wrote_delta else "full")] = p
    return p


def _wf_settle(d, paths, newest=None):
    """mtimes are an environment answer: fixed per role; `newest` = that path is the newest file of the directory"""
    role = {}
    for k, p in paths.items():
        role[os.path.basename(p)] = WF_ROLE_MTIME[k]
        role[os.path.basename(p) + ".meta"] = WF_ROLE_MTIME[k]
    for n in os.listdir(d):
        t = role.get(n, WF_STRAY_MTIME)
        if newest is not None and n == os.path.basename(newest):
            t = WF_STRAY_MTIME + 1
        try:
            os.utime(os.path.join(d, n), (t, t))
        except OSError:
            pass


def _wf_tree(d):
    out = {}
    for n in sorted(os.listdir(d)):
        p = os.path.join(d, n)
        if os.path.isfile(p):
            with open(p, "rb") as f:
                out[n] = f.read()
    return out


def _wf_restore(d, tree):
    shutil.rmtree(d, ignore_errors=True)
    os.makedirs(d)
    for n, b in tree.items():
        with open(os.path.join(d, n), "wb") as f:
            f.write(b)


def _wf_read(d, reader, etag, paths, pay, refs, last_path):
    """-> (outcome class, None | text).  Asked for `etag` (load_latest_snapshot: for whatever it finds)."""
    if reader.startswith("load_latest_snapshot"):
        _wf_settle(d, paths, newest=last_path if reader.endswith("[last-written-newest]") else None)
        try:
            info, got = _load_state_from(d)
        except Exception:
            return "absent:raises", None
        if not info.get("loaded"):
            return "absent:not-loaded", None
        picked = os.path.basename(info.get("path") or "")
        want = [refs[e] for (e, _l), p in sorted(paths.items()) if os.path.basename(p) == picked] or [refs["E1"], refs["E2"]]
        if any(J(got) == J(w) for w in want):
            return "exact", None
        return "wrong", "load_latest_snapshot reports loaded=True (picked %s) with state %s; full-load state of what was written there is %s" % (
            picked, J(got), " / ".join(J(w) for w in want))
    try:
        if reader == "read_snapshot(root,etag)":
            got = snap.read_snapshot(d, etag)
        else:
            ps = [p for (e, _l), p in sorted(paths.items()) if e == etag and os.path.exists(p)]
            if not ps:
                return "absent:no-file", None
            got = snap.read_snapshot(path=ps[0])   # "delta" sorts before "full": the delta where both exist
    except Exception:
        return "absent:raises", None
    want = pay["base" if etag == "E1" else "cur"]
    if J(got) == J(want):
        return "exact", None
    if got == {}:
        return "absent:empty", None
    return "wrong", "%s for %s returned %s, the payload written under that etag is %s" % (reader, etag, J(got), J(want))


def _wf_plan_str(plan):
    return "+".join("%s@%s%s" % (_faults.fault_tag(f), f["at"], (":n=%d" % f["n"]) if "n" in f else "") for f in plan if "at" in f) + (
        "+device-full" if any("at" not in f for f in plan) else "") or "none"


def _wf_plans(trace, errnos):
    """every single-point disturbance of the write whose undisturbed call trace is `trace`"""
    plans = [[]]
    for ent in trace:
        i = ent["i"]
        plans.append([{"at": i, "kind": _faults.KILL_BEFORE}])
        if ent["failable"]:
            for e in errnos:
                plans.append([{"at": i, "kind": _faults.FAIL, "errno": e}])
            if ent["name"] == "fsync":
                plans.append([{"at": i, "kind": _faults.FAIL_DROP, "errno": "EIO"}])
        if ent["writer"]:
            # the device is full from here on: every later raw write fails too (a buffered handle tries again when it is
            # closed or collected)
            full = [{"name": lab, "occ": sum(1 for t in trace[:i + 1] if t["name"] == lab) + k, "kind": _faults.FAIL, "errno": "ENOSPC"}
                    for lab in sorted({t["name"] for t in trace if t["writer"]}) for k in range(1, WF_FULL_DEVICE_WRITES + 1)]
            for n in range(1, ent["len"]):
                plans.append([{"at": i, "kind": _faults.PARTIAL_KILL, "n": n}])
                plans.append([{"at": i, "kind": _faults.SHORT, "n": n}] + full)
    return plans


def wfault_unit(scratch, base, cur, history, errnos, select, emit):
    """Lay the prefix down once; for every plan (select(index, plan) -> bool) restore it, run the disturbed write, ask
    the readers, repeat the write undisturbed, ask again.  emit(plan, op outcome, phase, reader, etag, outcome class, text|None, tree)
    Returns the number of plans of the unit (or a list of set-up violations)."""
    from mc.runner import HarnessError
    eng = _wf_engine()
    d = os.path.join(scratch, "c07w")
    shutil.rmtree(d, ignore_errors=True)
    os.makedirs(d)
    pay = {"base": base, "cur": cur}
    prefix, op = WF_HISTORIES[history]
    try:
        paths = {}
        try:
            for o in prefix:
                _wf_do(d, o, pay, paths)
        except Exception as e:
            return [("file:writer-raises:%s" % type(e).__name__, "write_snapshot_auto raised %r with intact files (history %s)" % (e, history))]
        _wf_settle(d, paths)
        tree0 = _wf_tree(d)
        paths0 = dict(paths)
        refs = {"E1": _ref_state(scratch, "E1", base), "E2": _ref_state(scratch, "E2", cur)}
        # the undisturbed write: its call trace is the space of disturbances, its result names the file it makes
        eng.begin([], root=d)
        try:
            outcome, val = eng.run(_wf_do, d, op, pay, paths)
            trace = list(eng.trace)
        finally:
            eng.end()
        if outcome != "return":
            return [("file:writer-raises:%s" % type(val).__name__, "write_snapshot_auto raised %r with intact files (history %s)" % (val, history))]
        paths1, last_path = dict(paths), val
        if not any(t["writer"] for t in trace):
            emit(None, "no-write-boundary", None, None, None, None, None, None)
        etags = sorted({e for (e, _l) in paths1})
        plans = _wf_plans(trace, errnos)
        for k, plan in enumerate(plans):
            if not select(k, plan):
                continue
            _wf_restore(d, tree0)
            cur_paths = dict(paths0)
            eng.begin(plan, root=d)
            try:
                outcome, val = eng.run(_wf_do, d, op, pay, cur_paths)
                fired = [f for _, f in eng.fired]
                unfired = eng.unfired()
            finally:
                eng.end()
            if plan and plan[0] not in fired:
                raise HarnessError("nondeterministic write: planned fault %r never reached (history %s)" % (plan[0], history))
            opo = {"return": "returned", "raise": "failed", "killed": "killed"}[outcome]
            # what the readers may be asked for: everything the history names; the file of the disturbed write by its
            # undisturbed name
            known = dict(paths1) if outcome != "return" else dict(cur_paths)
            for phase in ("after-fault", "after-retry"):
                if phase == "after-retry":
                    try:
                        rp = dict(paths0)
                        _wf_do(d, op, pay, rp)
                        known = rp
                    except Exception:
                        emit(plan, opo, phase, "writer", "-", "retry:raises", None, None)
                        break
                tree = _wf_tree(d)
                for reader in WF_READERS:
                    for etag in (etags if reader.startswith("read_snapshot") else ["*"]):
                        cls, text = _wf_read(d, reader, etag, known, pay, refs, last_path)
                        emit(plan, opo, phase, reader, etag, cls, text, tree)
                if not fired:
                    break   # nothing happened: one phase
        return len(plans)
    finally:
        shutil.rmtree(d, ignore_errors=True)


def _wf_kind(plan):
    return "+".join(_faults.fault_tag(f) for f in plan if "at" in f) + ("+device-full" if any("at" not in f for f in plan) else "") or "none"


# histories in which the baseline of the delta is present when the readers are asked (absence is then no answer to an
# undisturbed or successfully repeated write)
WF_BASELINE_PRESENT = ("rewrite-baseline", "write-delta", "rewrite-delta")


def _wf_judge(history, plan, opo, phase, reader, etag, cls, text):
    """-> (sig, what) | None"""
    if cls == "wrong":
        return ("wfault:%s:write-%s:%s:wrong-reconstruction" % (history, opo, phase),
                "history %s, write disturbed by %s (%s), readers asked %s: %s" % (history, _wf_plan_str(plan), opo, phase, text))
    if cls.startswith("absent") and history in WF_BASELINE_PRESENT and reader.startswith("read_snapshot") and cls != "absent:no-file":
        if not plan:
            return ("wfault:%s:absent-with-baseline-present" % history,
                    "history %s undisturbed: %s for %s answers %s with the baseline present" % (history, reader, etag, cls))
        if phase == "after-retry":
            return ("wfault:%s:absent-with-baseline-present" % history,
                    "history %s, write disturbed by %s (%s) and then repeated undisturbed: %s for %s answers %s with the baseline present" % (
                        history, _wf_plan_str(plan), opo, reader, etag, cls))
    return None


def _wfault_worker(chunk, st: Stats, scratch_root, pay, errnos, nslices):
    scratch = os.path.join(scratch_root, "f%d" % os.getpid())
    os.makedirs(scratch, exist_ok=True)
    import logging
    logging.disable(logging.CRITICAL)
    import contextlib, io
    os.environ["SOURCE_DATE_EPOCH"] = "1700000000"   # the sidecar's created_at must not read the wall clock
    try:
        for (i, j, history, sl) in chunk:
            base, cur = pay[i], pay[j]

            def emit(plan, opo, phase, reader, etag, cls, text, tree, _h=history, _b=base, _c=cur):
                if plan is None:
                    st.add("wfault_units_without_write_boundary")
                    return
                st.add("transitions")
                st.add("validated")
                st.add("wfault_cases")
                if plan:
                    st.add("nontrivial")
                if tree is not None:
                    st.distinct("states", ("wfault-dir", _h, sorted((n, b if not n.endswith(".meta") else len(b)) for n, b in tree.items())))
                st.distinct("outcomes", ("wfault", _h, _wf_kind(plan), opo, phase, reader, cls))
                v = _wf_judge(_h, plan, opo, phase, reader, etag, cls, text)
                if v:
                    st.violation(v[0], v[1], {"kind": "wfault", "base": _b, "cur": _c, "history": _h, "plan": plan, "errnos": errnos})
            with contextlib.redirect_stderr(io.StringIO()):
                res = wfault_unit(scratch, base, cur, history, errnos, lambda k, plan, _s=sl: k % nslices == _s, emit)
            if isinstance(res, list):
                for sig, what in res:
                    st.violation(sig, what, {"kind": "file", "base": base, "cur": cur, "baseline": "present", "reader": READERS[0]})
            else:
                st.notes["wfault_max_plans_per_unit"] = max(st.notes.get("wfault_max_plans_per_unit", 0), res)
        st.sample({"kind": "wfault", "base": pay[chunk[0][0]], "cur": pay[chunk[0][1]], "history": chunk[0][2],
                   "plan": [{"at": 3, "kind": "kill-before"}], "errnos": errnos})
    finally:
        if _WF_ENG is not None:
            _WF_ENG.end()
        shutil.rmtree(scratch, ignore_errors=True)


def run(run: Run) -> None:
    objs = universe(run.thorough)
    run.notes["universe_size"] = len(objs)
    run.rule = ("(a) all ordered pairs of the %d-object universe (<=2 top-level keys from a 5-6 key alphabet incl. "
                "dotted/empty/unicode, values incl. 0/1/True/1.0/None/lists/nested dicts); non-trivial = base != cur; "
                "(b) every (base,cur) from the snapshot-shaped sub-universe x baseline condition x reader; "
                "(c) damage: (base,cur) pairs of snapshot-shaped payloads x damaged file {baseline after the delta was written, "
                "baseline before the delta-mode writer runs, delta, full used as fallback} x damage kind {high bit set, byte "
                "zeroed, cut, byte dropped} x EVERY byte position of that file x reader; judged where the damaged bytes are "
                "no longer a snapshot file (harness-side strict UTF-8 + JSON parse of both layouts): exact payload or absence; "
                "(d) write faults: (base,cur) pairs of (c) (quick: the first two) x history {baseline written again under an existing delta, delta written / written "
                "again, full written / written again as the fall-back of a delta whose baseline is gone} x one disturbance of the last "
                "write of the history: process killed before EVERY numbered I/O call, every failable call failing (ENOSPC; thorough "
                "also EIO, EACCES; fsync also losing the unsynced half), every raw write cut after EVERY byte count n followed by death, "
                "or by ENOSPC on the next raw write; then every reader x every etag of the history, the same write repeated undisturbed, "
                "every reader again: the payload written under that etag or absence, and no absence from read_snapshot after an "
                "undisturbed / successfully repeated write with the baseline present" % len(objs))
    for o in objs:
        run.distinct("states", o)
    run.pmap(_pair_worker, list(range(len(objs))), extra=(objs,))
    fu = file_universe(run.thorough)
    cases = []
    for b in fu:
        for c in fu:
            for bl in BASELINES:
                for rd in READERS:
                    cases.append({"kind": "file", "base": b, "cur": c, "baseline": bl, "reader": rd})
    run.notes["file_universe_size"] = len(fu)
    run.pmap(_file_worker, cases, extra=(run.scratch,))
    pay, pairs = damage_universe(run.thorough)
    units = [(i, j, t, k) for (i, j) in pairs for t in DAMAGE_TARGETS for k in DAMAGE_KINDS]
    run.notes["damage_pairs"] = len(pairs)
    run.notes["damage_units"] = len(units)
    from mc.runner import NCPU
    run.pmap(_damage_worker, units, extra=(run.scratch, pay), chunks=len(units), procs=NCPU)
    errnos = ["ENOSPC", "EIO", "EACCES"] if run.thorough else ["ENOSPC"]
    nsl = 4
    wpairs = pairs if run.thorough else pairs[:2]
    wunits = [(i, j, h, sl) for (i, j) in wpairs for h in sorted(WF_HISTORIES) for sl in range(nsl)]
    run.notes["wfault_pairs"] = len(wpairs)
    run.notes["wfault_units"] = len(wunits) // nsl
    run.pmap(_wfault_worker, wunits, extra=(run.scratch, pay, errnos, nsl), chunks=len(wunits), procs=NCPU)
    if run.n.get("wfault_units_without_write_boundary"):
        run.cap("write-fault leg: in %d unit slices the undisturbed write showed no raw write on the proxies (the writer reaches the "
                "file system through a door mc.faults does not shadow): its byte positions were not disturbed" % run.n["wfault_units_without_write_boundary"])
    run.assume("zstandard is not installed in this image: codec dimension = {none}")
    run.assume("write faults: one disturbance per write (plus the ENOSPC pair short write + failing next write), at the I/O calls the "
               "snapshot module and the atomic writer make through their module globals os / open / tempfile / Path (mc.faults proxies); "
               "a killed process is followed by readers and a repeated write in the same interpreter (module state survives, unlike a "
               "real restart); file mtimes after the disturbance are fixed per role, left-overs of the disturbed write are the newest "
               "entries; the retry repeats the same write with the same payload")
    run.assume("corrupt file = bytes that are no longer a snapshot file: the fixed menu garbage / empty / truncated for the baseline, and "
               "single-position damage (high bit set, byte zeroed, cut, byte dropped) at every position of baseline, delta or fallback "
               "full, judged only where strict UTF-8 decoding or JSON parsing of both file layouts fails in the harness's own parser; "
               "damage that leaves other valid JSON behind (a changed digit, a shortened string, a file cut exactly after its header "
               "line) is undetectable without checksums and outside the alphabet")
    run.assume("a reader that answers a damaged newest file by loading the older intact full snapshot exactly is counted as a fall-back, not as a wrong state")


def replay(case):
    import tempfile
    if case["kind"] == "pair":
        return check_pair(case["base"], case["cur"])
    d = tempfile.mkdtemp(prefix="c07r", dir="/dev/shm" if os.path.isdir("/dev/shm") else None)
    try:
        if case["kind"] == "wfault":
            found = []

            def emit(plan, opo, phase, reader, etag, cls, text, tree):
                if plan is None:
                    return
                v = _wf_judge(case["history"], plan, opo, phase, reader, etag, cls, text)
                if v and v not in found:
                    found.append(v)
            os.environ["SOURCE_DATE_EPOCH"] = "1700000000"
            try:
                res = wfault_unit(d, case["base"], case["cur"], case["history"], case.get("errnos") or ["ENOSPC"],
                                  lambda k, plan: plan == case["plan"], emit)
            finally:
                if _WF_ENG is not None:
                    _WF_ENG.end()
            return res if isinstance(res, list) else found
        if case["kind"] == "damage":
            found = []
            res = damage_unit(d, case["base"], case["cur"], case["target"], [case["damage"]], [case["pos"]], [case["reader"]],
                              lambda kind, p, reader, outcome, viol, bad: found.append(viol) if viol else None)
            return res if isinstance(res, list) else found
        return check_file(case, d)
    finally:
        shutil.rmtree(d, ignore_errors=True)
