"""C12 — T1 graph propagation follows the documented spreading rule within its budgets.

Engine E2 (small-scope enumeration): every directed multigraph on 3 fixed nodes (labels + one tag) with
<= 2 edges (thorough: also 3 edges over a reduced edge alphabet) x every text of a 5-text alphabet x every
configuration with <= 2 deviations from the default over 13 dimensions (decay mode, radius, iter_cap,
iter_cap_layers, queue budget, node budget, relax cap, slice t1_iters, slice t1_pops, perf caps, one/two graphs,
a muted relation, sequential walk / per-graph fan-out).
The REAL `clematis.engine.stages.t1.t1_propagate` is executed on a real `InMemoryGraphStore` for each element.

Three oracle layers per execution
 (i)   invariants read off the property statement (black box on T1Result + store):
       seeds / reachability within radius and layer caps / counters within (slice-clamped) budgets /
       one delta per node, id-sorted per graph / store deep-equal before and after;
 (ii)  observed work: `t1.heapq`, `t1.defaultdict` (the activation accumulator) and the adjacency returned by
       `store.csr` are counting proxies; the reported counters must equal the work the proxies saw, the
       budgets must hold for the *performed* work too, and no node at/over its budget may be expanded;
 (iii) a boring reference propagation (plain list kept sorted best-first) -> identical per-graph deltas,
       counters, max_delta, final activations and pop trace; evaluated on cases that passed (i) and (ii).

Further legs: "arms" (hop distance over two paths of different length), "warm cache" (slice caps vs. an earlier call
without them), "keyword holders" (who holds which label/tag is enumerated: keywords unique, shared by several nodes,
doubled on one node) and "call histories" (every short sequence of calls over the active-graph lists of a two-graph
store with the result cache on; oracle = the same call made cold) and "fan-out" (the entry path is a configuration
dimension `par`: the stage walks the graphs one after the other or hands them to the per-graph fan-out behind the
perf.parallel gate, which aggregates the per-graph results through its own merge code; the fan-out leg adds a second
graph and a further deviation to the gate.  The pool's workers run inline, one at a time, in submission order - thread
schedules are C09's subject - so all three oracle layers apply unchanged).

Two more legs: "fan-in" (three feeders a,b,c -> v -> w with every weight assignment over {-2,-1,1,2}: the inner node's
activation crosses the per-node budget from either side, or returns under it, between being queued and being popped; same
three oracle layers) and "edit histories" (call (write call)+ on one store with the result cache on, the writes going
through the store's write API - a fresh object, the live object edited in place and passed back, an equal copy of it, or
apply_deltas; oracle = the same call made cold on a fresh store built from the written content).

Differences from DESIGN.md "C12": the "loose" pop budget is 128 instead of the engine default 10^4 (LOOSE_Q below);
one more text (all three nodes) and two more config dimensions (slice caps looser than the config value, a second
active graph); the accumulator is observed too (`t1.defaultdict`), which makes activation values checkable.
"""
from __future__ import annotations

import bisect
import collections
import concurrent.futures as _cf
import heapq as _real_heapq
import itertools
import types

from mc.runner import Run, Stats, HarnessError, NCPU

import clematis.engine.stages.t1 as t1mod
import clematis.engine.util.parallel as par_mod
from clematis.engine.types import Config, Node, Edge
from clematis.graph.store import InMemoryGraphStore

EPS = 1e-6          # documented cut-off of the stage ("EPS cut")
TOL = 1e-12

# ------------------------------------------------------------------------------------------------ alphabet
# insertion order (n3, n1, n2) != id order (n1, n2, n3) != label order (Apple n2, fig n3, pear n1)
NODES = [("n3", "fig", ["Kiwi"]), ("n1", "pear", None), ("n2", "Apple", None)]
NODE_IDS = ["n1", "n2", "n3"]
# second graph of the two-graph world (ids sort *before* the first graph's ids)
H_NODES = [("m1", "apple", None), ("m0", "quince", None)]
H_EDGES = [("m1", "m0", 1.0, "supports"), ("m0", "m1", 0.5, "associates")]

TEXTS = [
    "zzz",                      # no seed
    "an APPLE a day",           # n2 (case-insensitive)
    "pineapple and PEARS",      # n2 + n1 (substring occurrence)
    "kiwi",                     # n3 through its tag
    "apple pear fig",           # all three
]

EDGE_MULT = {"supports": 1.0, "associates": 0.6, "contradicts": 0.8}
UNKNOWN_MULT = 0.6              # unknown relation is treated like the store's default relation "associates"

# "loose" pop budget: never binding on converging walks (<= ~40 pops here) but binding on the few graphs whose walk
# branches without reaching the node budget (two self-loops of opposite sign on one node: the engine default of 10^4
# pops would be spent in full on each of their ~10^3 cases)
LOOSE_Q = 128

DIMS = [
    ("decay", ["exp", "quad"]),
    ("radius", [4, 0, 1]),
    ("iter_cap", [50, 0, 1]),
    ("layers", [50, 0, 1]),
    ("queue", [LOOSE_Q, 0, 1, 2]),
    ("node_budget", [1.5, 0.4]),
    ("relax", [None, 0, 1]),
    ("slice_iters", [None, 0, 1, 3]),
    ("slice_pops", [None, 0, 1, 3]),
    ("perf", ["off", "frontier1", "visited1", "dedupe1"]),
    # which graphs the caller lists as active, and in which order: "two" lists g before h (ids ascending), "two_rev"
    # lists h before g, i.e. NOT in the lexicographic order of the graph ids (the store is filled in listing order too)
    ("world", ["one", "two", "two_rev"]),
    # a relation muted with multiplier exactly 0 (accepted by the validator): nothing spreads along its edges
    ("mult", ["default", "supports0"]),
    # the entry path of the stage: graphs walked one after the other ("off", the default) or handed to the per-graph
    # fan-out behind the perf.parallel gate ("on": enabled + t1 + max_workers 4), which aggregates the per-graph
    # results through its own merge code.  The statement quantifies over configurations; it holds on both paths.
    ("par", ["off", "on"]),
]
PERF_THOROUGH_EXTRA = ["frontier2", "visited2", "dedupe2"]
# gate boundary: perf.parallel enabled for T1 with max_workers 1 (documented: no fan-out below 2 workers)
PAR_THOROUGH_EXTRA = ["workers1"]
PAR_WORKERS = {"on": 4, "workers1": 1}


WORLDS = ("one", "two", "two_rev")


def dims_for(thorough: bool):
    out = []
    for name, vals in DIMS:
        vals = list(vals)
        if thorough and name == "perf":
            vals += PERF_THOROUGH_EXTRA
        if thorough and name == "par":
            vals += PAR_THOROUGH_EXTRA
        out.append((name, vals))
    return out


def enum_devs(thorough: bool, k: int = 2):
    """every assignment with <= k deviations from the default (first value of each dimension)"""
    dims = dims_for(thorough)
    singles = [(n, v) for n, vals in dims for v in vals[1:]]
    out = [{}]
    for r in range(1, k + 1):
        for combo in itertools.combinations(singles, r):
            names = [c[0] for c in combo]
            if len(set(names)) < r:
                continue
            out.append(dict(combo))
    return out


def edge_types(weights, rels):
    return [(s, d, w, r) for s in NODE_IDS for d in NODE_IDS for w in weights for r in rels]


def enum_graphs(n_edges: int, weights, rels):
    """every multigraph with exactly n_edges edges; edge order is significant only among edges with the same
    source (adjacency-list order), so sequences are kept iff their sources are non-decreasing."""
    T = edge_types(weights, rels)
    out = []
    for seq in itertools.product(T, repeat=n_edges):
        ok = True
        for a, b in zip(seq, seq[1:]):
            if a[0] > b[0]:
                ok = False
                break
        if ok:
            out.append(tuple(seq))
    return out


_GRAPH_CACHE = {}


def graph_space(tier: str):
    """list of (edges, kdev) : graph and the deviation bound used for it"""
    if tier in _GRAPH_CACHE:
        return _GRAPH_CACHE[tier]
    if tier == "thorough":
        W, R = [-0.5, 0.0, 0.5, 1.0], ["supports", "associates", "zzz"]
        W2, R2 = W, R
    else:
        W, R = [-0.5, 0.0, 0.5, 1.0], ["supports", "associates", "zzz"]
        W2, R2 = [-0.5, 1.0], ["supports", "zzz"]
    gs = []
    for n in (0, 1):
        gs += [(g, 2) for g in enum_graphs(n, W, R)]
    gs += [(g, 2) for g in enum_graphs(2, W2, R2)]
    if tier == "thorough":
        gs += [(g, 1) for g in enum_graphs(3, [-0.5, 1.0], ["supports", "zzz"])]
    _GRAPH_CACHE[tier] = gs
    return gs


# ------------------------------------------------------------------------------------------------ proxies
class _Obs:
    def __init__(self):
        self.reset(1.5)

    def reset(self, node_budget):
        self.node_budget = node_budget
        self.n_pop = 0
        self.n_push = 0
        self.pop_trace = []
        self.evicted = 0
        self.evicted_seeding = 0
        self.accs = []
        self.acc_sets = 0
        self.seed_sets = []
        self.seeding = False
        self.in_missing = False
        self.cur_acc = None
        self.expansions = []
        self.edges_iter = 0
        self.weight_reads = 0
        self.evals = []
        self.over_budget_expansion = None
        self.odd_items = 0
        self.pools = 0
        self.pool_tasks = 0


OBS = _Obs()


class _HeapProxy:
    """stands in for the `heapq` module inside clematis.engine.stages.t1"""

    def heappush(self, h, item):
        OBS.n_push += 1
        return _real_heapq.heappush(h, item)

    def heappop(self, h):
        it = _real_heapq.heappop(h)
        OBS.n_pop += 1
        OBS.seeding = False
        try:
            OBS.pop_trace.append((it[1], it[-1]))
        except Exception:
            OBS.odd_items += 1
        return it

    def nsmallest(self, n, it):
        lst = list(it)
        out = _real_heapq.nsmallest(n, lst)
        OBS.evicted += len(lst) - len(out)
        if OBS.seeding:
            OBS.evicted_seeding += len(lst) - len(out)
        return out

    def heapify(self, h):
        return _real_heapq.heapify(h)

    def __getattr__(self, name):
        return getattr(_real_heapq, name)


class _ObsDD(collections.defaultdict):
    """the activation accumulator (`acc = defaultdict(float)`)"""

    def __init__(self, *a, **k):
        super().__init__(*a, **k)
        OBS.accs.append(self)
        OBS.cur_acc = self
        OBS.seeding = True

    def __missing__(self, key):
        OBS.in_missing = True
        try:
            return super().__missing__(key)
        finally:
            OBS.in_missing = False

    def __setitem__(self, key, val):
        if not OBS.in_missing:
            OBS.acc_sets += 1
            if OBS.seeding:
                OBS.seed_sets.append(key)
        dict.__setitem__(self, key, val)


class _ObsEdge:
    __slots__ = ("_e",)

    def __init__(self, e):
        object.__setattr__(self, "_e", e)

    @property
    def weight(self):
        OBS.weight_reads += 1
        e = self._e
        OBS.evals.append((e.src, e.dst))
        return e.weight

    def __getattr__(self, name):
        return getattr(object.__getattribute__(self, "_e"), name)

    def __setattr__(self, name, val):
        raise AttributeError("C12 harness: propagation must not write to edges (%s)" % name)


class _ObsList(list):
    def __iter__(self):
        for x in list.__iter__(self):
            OBS.edges_iter += 1
            yield x


class _ObsAdj(dict):
    def __getitem__(self, u):
        OBS.expansions.append(u)
        acc = OBS.cur_acc
        if acc is not None:
            val = dict.get(acc, u, 0.0)
            if abs(val) >= OBS.node_budget and OBS.over_budget_expansion is None:
                OBS.over_budget_expansion = (u, val)
        return dict.__getitem__(self, u)


class ObsStore(InMemoryGraphStore):
    """the real store; only the *returned* adjacency is wrapped in observing containers"""

    def csr(self, gid):
        adj = super().csr(gid)
        OBS.cur_acc = None
        return _ObsAdj({u: _ObsList([(v, _ObsEdge(e)) for (v, e) in lst]) for u, lst in adj.items()})


class _InlinePool:
    """stands in for `ThreadPoolExecutor` inside clematis.engine.util.parallel: every submitted thunk runs at once on
    the calling thread (workers one at a time, in submission order) and is delivered through a real, completed Future.
    The fan-out code of the stage (task list, run_parallel, merge, unpacking) is the real one; only the thread
    schedule is fixed, which keeps the observing proxies (process-global, one walk at a time) meaningful."""

    def __init__(self, max_workers=None, thread_name_prefix="", **_kw):
        self.max_workers = max_workers
        OBS.pools += 1

    def submit(self, fn, *a, **kw):
        OBS.pool_tasks += 1
        f = _cf.Future()
        try:
            f.set_result(fn(*a, **kw))
        except Exception as e:  # noqa: BLE001 -- delivered through Future.result(), like a real pool
            f.set_exception(e)
        return f

    def shutdown(self, wait=True, **_kw):
        return None

    def __enter__(self):
        return self

    def __exit__(self, *exc):
        return False


_INSTALLED = False


def install():
    global _INSTALLED
    if _INSTALLED:
        return
    if getattr(par_mod, "ThreadPoolExecutor", None) is not _cf.ThreadPoolExecutor:
        raise HarnessError("seam missing: clematis.engine.util.parallel.ThreadPoolExecutor is not the stdlib pool")
    if getattr(t1mod, "heapq", None) is not _real_heapq:
        raise HarnessError("seam missing: clematis.engine.stages.t1.heapq is not the heapq module")
    if getattr(t1mod, "defaultdict", None) is not collections.defaultdict:
        raise HarnessError("seam missing: clematis.engine.stages.t1.defaultdict")
    for nm in ("_T1_CACHE", "_T1_CACHE_CFG"):
        if not hasattr(t1mod, nm):
            raise HarnessError("seam missing: t1.%s" % nm)
    t1mod.heapq = _HeapProxy()
    t1mod.defaultdict = _ObsDD
    par_mod.ThreadPoolExecutor = _InlinePool
    _INSTALLED = True


def reset_caches():
    t1mod._T1_CACHE = None
    t1mod._T1_CACHE_CFG = None
    if hasattr(t1mod, "_T1_CACHE_KIND"):
        t1mod._T1_CACHE_KIND = None


# ------------------------------------------------------------------------------------------------ config
def params(dev: dict) -> dict:
    g = lambda k, d: dev.get(k, d)
    perf = g("perf", "off")
    P = {
        "decay": g("decay", "exp"),
        "radius": g("radius", 4),
        "iter_cap": g("iter_cap", 50),
        "layers": g("layers", 50),
        "queue": g("queue", LOOSE_Q),
        "node_budget": g("node_budget", 1.5),
        "relax": g("relax", None),
        "slice_iters": g("slice_iters", None),
        "slice_pops": g("slice_pops", None),
        "frontier": int(perf[-1]) if perf.startswith("frontier") else 0,
        "visited": int(perf[-1]) if perf.startswith("visited") else 0,
        "dedupe": int(perf[-1]) if perf.startswith("dedupe") else 0,
        "perf": perf,
        "world": g("world", "one"),
        "mult": g("mult", "default"),
        "par": g("par", "off"),
    }
    P["edge_mult"] = dict(EDGE_MULT, supports=0.0) if P["mult"] == "supports0" else dict(EDGE_MULT)
    L = min(P["iter_cap"], P["layers"])
    if P["slice_iters"] is not None:
        L = min(L, P["slice_iters"])
    Q = P["queue"]
    if P["slice_pops"] is not None:
        Q = min(Q, P["slice_pops"])
    P["L"] = L           # effective layer budget
    P["Q"] = Q           # effective pop budget
    return P


def make_ctx(dev: dict, cache=False, cache_entries: int = 64):
    """cache: False (stage cache off) | True / "lru" (t1.cache, the legacy LRU) | "bytes" (perf.t1.cache, size-aware)"""
    P = params(dev)
    if cache is True:
        cache = "lru"
    cfg = Config()
    decay = {"mode": "exp_floor", "rate": 0.6, "floor": 0.05} if P["decay"] == "exp" else {"mode": "attn_quad", "alpha": 0.8}
    cfg.t1 = {
        "decay": decay,
        "edge_type_mult": dict(P["edge_mult"]),
        "iter_cap": P["iter_cap"],
        "iter_cap_layers": P["layers"],
        "node_budget": P["node_budget"],
        "queue_budget": P["queue"],
        "radius_cap": P["radius"],
        "relax_cap": P["relax"],
        "cache": ({"enabled": True, "max_entries": cache_entries, "ttl_s": 300} if cache == "lru"
                  else {"enabled": False, "max_entries": 0, "ttl_s": 0}),
    }
    if P["perf"] != "off":
        t1p = {"caps": {}}
        if P["frontier"]:
            t1p["caps"]["frontier"] = P["frontier"]
        if P["visited"]:
            t1p["caps"]["visited"] = P["visited"]
        if P["dedupe"]:
            t1p["dedupe_window"] = P["dedupe"]
        cfg.perf = {"enabled": True, "metrics": {"report_memory": True}, "t1": t1p}
    else:
        cfg.perf = {"enabled": False}
    if cache == "bytes":
        # the size-aware result cache sits behind the perf gate; with no perf caps set the gate changes nothing else
        if P["perf"] == "off":
            cfg.perf = {"enabled": True, "t1": {}}
        cfg.perf["t1"]["cache"] = {"max_entries": cache_entries, "max_bytes": 1 << 20}
    if P["par"] != "off":
        # the fan-out gate is its own switch (perf.parallel.enabled + .t1 + max_workers > 1), independent of perf.enabled
        cfg.perf["parallel"] = {"enabled": True, "t1": True, "t2": False, "agents": False, "max_workers": PAR_WORKERS[P["par"]]}
    ctx = types.SimpleNamespace(cfg=cfg, config=cfg, turn_id="1", agent_id="A")
    sb = {}
    if P["slice_iters"] is not None:
        sb["t1_iters"] = P["slice_iters"]
    if P["slice_pops"] is not None:
        sb["t1_pops"] = P["slice_pops"]
    if sb:
        ctx.slice_budgets = sb
    return ctx, P


# family "arms": two paths of different hop length from the seed s to v (s->a->b->v and s->c->v) and a successor w of v.
# With a weak first edge on the short arm the max-heap reaches v over the LONG arm first; the hop distance of v must
# still become the short one (radius / layer caps are stated in hops from a seed).
ARM_NODES = [("s", "seed", None), ("a", "aa", None), ("b", "bb", None), ("c", "cc", None), ("v", "vv", None), ("w", "ww", None)]
ARM_EDGES = [("s", "a"), ("a", "b"), ("b", "v"), ("s", "c"), ("c", "v"), ("v", "w")]
ARM_TEXTS = ["seed", "seed and cc"]

# family "fan-in": several seeds feed ONE inner node v over edges of either sign and of magnitude up to 2, and v has a
# successor w.  The main alphabet (|weight| <= 1, <= 3 edges) lets an accumulator reach the per-node budget only from
# the positive side and only on a seed; here v's activation crosses the budget from either side - or returns under it -
# BETWEEN being queued (still under budget) and being popped, and the expansion v->w makes an over-budget expansion
# observable ("never exceeding its ... per-node budgets", for all graphs incl. negative weights).
# insertion order (c, a, w, b, v) != id order
FANIN_NODES = [("c", "cc", None), ("a", "aa", None), ("w", "ww", None), ("b", "bb", None), ("v", "vv", None)]
FANIN_EDGES = [("a", "v"), ("b", "v"), ("c", "v"), ("v", "w")]
FANIN_WEIGHTS = (-2.0, -1.0, 1.0, 2.0)
FANIN_TEXTS = ["aa bb", "aa bb cc", "aa bb vv"]       # two feeders, three feeders, two feeders + v itself a seed

# family "keyword holders": who holds which keyword is enumerated instead of fixed.  Every assignment of a label from a
# 3-label alphabet (two of them equal up to case) to the three nodes x a tag list on two of them: keywords unique,
# shared by two or three nodes (label/label, label/tag, tag/tag, differing in case only), held twice by one node
# (label == own tag, tag listed twice).  "seeds exactly the nodes whose label or tag occurs in the text" quantifies
# over nodes, so every holder of a matched keyword is a seed.
KW_LABELS = ["apple", "Apple", "pear"]
KW_TAGS_N3 = [None, ["APPLE"], ["Pear", "pear"]]
KW_TAGS_N1 = [None, ["apple"]]
KW_TEXTS = ["zzz", "an APPLE a day", "pineapple and PEARS"]


def keyword_nodesets():
    out = []
    for l3, l1, l2 in itertools.product(KW_LABELS, repeat=3):
        for t3 in KW_TAGS_N3:
            for t1 in KW_TAGS_N1:
                out.append([("n3", l3, t3), ("n1", l1, t1), ("n2", l2, None)])      # same ids / insertion order as NODES
    return out


# family "call histories": the stage keeps a process-global result cache, so what a call returns may depend on the calls
# before it.  Every sequence of <= 2 (thorough 3) calls over the alphabet of active-graph lists below, same text, same
# configuration, same store, result cache ON (each kind the stage offers).
ACTIVE_ALPHA = [("g", "h"), ("g",), ("h", "g"), ("h",)]
CACHE_KINDS_QUICK = [("lru", 64), ("bytes", 64)]
CACHE_KINDS_THOROUGH = CACHE_KINDS_QUICK + [("lru", 1), ("bytes", 1)]      # 1 entry: the two graphs evict each other


def world_graphs(edges, world, nodes=None):
    gs = [("g", nodes or NODES, list(edges))]
    if world == "two":
        gs.append(("h", H_NODES, H_EDGES))
    elif world == "two_rev":
        gs.insert(0, ("h", H_NODES, H_EDGES))
    elif world != "one":
        raise HarnessError("unknown world %r" % (world,))
    return gs


def build_store(graphs):
    s = ObsStore()
    for gid, nodes, edges in graphs:
        s.upsert_nodes(gid, [Node(id=i, label=l, attrs=({"tags": list(t)} if t is not None else {})) for (i, l, t) in nodes])
        s.upsert_edges(gid, [Edge(id="e%d" % k, src=a, dst=b, weight=w, rel=r) for k, (a, b, w, r) in enumerate(edges)])
    return s


def snap_store(s):
    out = []
    for gid, g in s._graphs.items():
        out.append((gid, g.graph_id, g.version_etag, g.views_surface_k, repr(g.flags), repr(g.meta),
                    tuple((k, n.id, n.label, repr(n.attrs), n.vec_full is None, n.vec_surface is None) for k, n in g.nodes.items()),
                    tuple((k, e.id, e.src, e.dst, repr(e.weight), e.rel, repr(e.attrs)) for k, e in g.edges.items())))
    return tuple(out)


# ------------------------------------------------------------------------------------------------ statement-level helpers
def expected_seeds(nodes, text):
    """exactly the nodes whose label or (string) tag occurs, case-insensitively, in the text"""
    t = text.lower()
    out = set()
    for nid, label, tags in nodes:
        kws = [label] + [x for x in (tags or []) if isinstance(x, str)]
        if any(k and k.lower() in t for k in kws):
            out.add(nid)
    return out


def bfs(seeds, edges):
    dist = {s: 0 for s in seeds}
    frontier = list(seeds)
    while frontier:
        nxt = []
        for u in frontier:
            for (a, b, _w, _r) in edges:
                if a == u and b not in dist:
                    dist[b] = dist[u] + 1
                    nxt.append(b)
        frontier = nxt
    return dist


def decay_of(mode, d):
    if mode == "quad":
        return 1.0 / (1.0 + 0.8 * (d ** 2))
    return max(0.6 ** d, 0.05)


# ------------------------------------------------------------------------------------------------ reference propagation
def ref_one_graph(nodes, edges, text, P):
    """Boring reference: the frontier is a plain list kept sorted, best entry (larger |contribution|, then node id,
    then signed value) first.  Returns a dict of counters, touched ids, final activations,
    pop trace and a `fragile` flag (a decision depended on a difference below 1e-12)."""
    R = {"pops": 0, "iters": 0, "propagations": 0, "radius_cap_hits": 0, "layer_cap_hits": 0, "node_budget_hits": 0,
         "max_delta": 0.0, "frontier_evicted": 0, "dedup_hits": 0, "visited_evicted": 0,
         "touched": [], "acc": {}, "trace": [], "fragile": False, "seeds": []}
    t = text.lower()
    kws = []
    for nid, label, tags in nodes:
        if label:
            kws.append((label.lower(), nid))
        for x in (tags or []):
            if isinstance(x, str) and x:
                kws.append((x.lower(), nid))
    seeds = []
    holders = {}
    for kw, nid in sorted(kws, key=lambda p: p[0]):      # documented: stable seeding order = sorted label order
        if kw in t:
            holders.setdefault(kw, set()).add(nid)
            if nid not in seeds:
                seeds.append(nid)
    R["seeds"] = list(seeds)
    if P["dedupe"] and any(len(h) > 1 for h in holders.values()):
        # two different nodes hold the same matched keyword: "sorted label order" does not order them, and the dedupe
        # window (alone) remembers the seeding order
        R["fragile"] = True
    if not seeds:
        return R
    NB, L, Q, RAD, relax = P["node_budget"], P["L"], P["Q"], P["radius"], P["relax"]
    fcap = min(P["frontier"], Q) if P["frontier"] else None
    ring = [] if P["dedupe"] else None
    visited = [] if P["visited"] else None
    out_edges = {}
    for (a, b, w, r) in edges:
        out_edges.setdefault(a, []).append((b, w, r))
    acc, dist, frontier = {}, {}, []

    # the frontier is a plain list kept sorted best-first: entries (-|value|, node, value) compare exactly in the
    # documented order (larger |contribution|, then node id, then signed value)
    def push(node, val):
        if ring is not None and node in ring:
            R["dedup_hits"] += 1
            return
        bisect.insort(frontier, (-abs(val), node, val))
        if fcap is not None and len(frontier) > fcap:
            R["frontier_evicted"] += len(frontier) - fcap
            del frontier[fcap:]
        if ring is not None:
            ring.append(node)
            del ring[:-P["dedupe"]]

    for s in seeds:
        push(s, 1.0)
        acc[s] = acc.get(s, 0.0) + 1.0
        dist[s] = 0
        R["max_delta"] = max(R["max_delta"], 1.0)

    layers_done = 0
    stop = False
    while frontier and R["pops"] < Q and not stop:
        best = frontier.pop(0)
        for ent in frontier:
            if ent[0] - best[0] >= TOL:
                break
            if ent[1] != best[1] and ent[0] != best[0]:
                R["fragile"] = True
        _neg, u, w = best
        R["pops"] += 1
        R["trace"].append((u, w))
        if visited is not None:
            if u in visited:
                continue
            visited.append(u)
            if len(visited) > P["visited"]:
                del visited[0]
                R["visited_evicted"] += 1
        if dist[u] > layers_done:
            layers_done = dist[u]
        if abs(abs(acc[u]) - NB) < TOL and abs(acc[u]) != NB:
            R["fragile"] = True
        if abs(acc[u]) >= NB:
            R["node_budget_hits"] += 1
            continue
        for (v, wt, rel) in out_edges.get(u, ()):
            d = dist[u] + 1
            if d > RAD:
                R["radius_cap_hits"] += 1
                continue
            if d > L:
                R["layer_cap_hits"] += 1
                continue
            c = w * float(wt) * P["edge_mult"].get(rel, UNKNOWN_MULT) * decay_of(P["decay"], d)
            if abs(abs(c) - EPS) < 1e-15:
                R["fragile"] = True
            if abs(c) < EPS:
                continue
            acc[v] = acc.get(v, 0.0) + c
            R["propagations"] += 1
            R["max_delta"] = max(R["max_delta"], abs(c))
            if v not in dist or d < dist[v]:
                dist[v] = d
            if abs(abs(acc[v]) - NB) < TOL and abs(acc[v]) != NB:
                R["fragile"] = True
            if abs(acc[v]) < NB:
                push(v, c)
            else:
                R["node_budget_hits"] += 1
            if relax is not None and R["propagations"] >= relax:
                stop = True
                break
    R["iters"] = min(layers_done, L)
    for nid in sorted(acc):
        if abs(abs(acc[nid]) - EPS) < 1e-15:
            R["fragile"] = True
        if abs(acc[nid]) >= EPS:
            R["touched"].append(nid)
    R["acc"] = acc
    return R


# ------------------------------------------------------------------------------------------------ the oracle
COUNTERS = ["pops", "iters", "propagations", "radius_cap_hits", "layer_cap_hits", "node_budget_hits"]
PERF_COUNTERS = [("t1_frontier_evicted", "frontier_evicted"), ("t1_dedup_hits", "dedup_hits"), ("t1_visited_evicted", "visited_evicted")]
FAR = 10 ** 9


def make_scene(edges, text, world, nodes=None):
    """everything the statement-level oracle needs that depends only on (graph, text, world)"""
    graphs = world_graphs(edges, world, nodes)
    sc = {"graphs": graphs, "active": [g[0] for g in graphs], "node_graph": {}, "seeds": {}, "dist": {}, "edges": list(edges),
          "text": text, "nodes": nodes}
    for gid, nodes, ged in graphs:
        for nid, _l, _t in nodes:
            sc["node_graph"][nid] = gid
        es = expected_seeds(nodes, text)
        sc["seeds"][gid] = es
        sc["dist"][gid] = bfs(es, ged)
    sc["all_seeds"] = set().union(*sc["seeds"].values())
    sc["reach"] = {}
    for d in sc["dist"].values():
        sc["reach"].update(d)
    sc["n_seeded"] = max(1, sum(1 for es in sc["seeds"].values() if es))
    sc["no_neg"] = {gid: all(w >= 0 for (_a, _b, w, _r) in ged) for gid, _n, ged in graphs}
    return sc


def execute(sc, ctx, P, store=None, before=None):
    """one real execution of t1_propagate; returns (T1Result | Exception, store, before-snapshot, state)"""
    install()
    if store is None:
        store = build_store(sc["graphs"])
        before = snap_store(store)
    state = {"store": store, "active_graphs": list(sc["active"])}
    reset_caches()
    OBS.reset(P["node_budget"])
    try:
        res = t1mod.t1_propagate(ctx, state, sc["text"])
    except Exception as e:  # noqa
        res = e
    finally:
        reset_caches()
    return res, store, before, state


def _ref_mismatches(sc, Pv, m, per_graph, o, tag):
    """layer (iii) against one reading of the perf caps; returns (mismatches, fragile)"""
    out = []
    tot = {k: 0 for k in COUNTERS}
    ptot = {k: 0 for _mk, k in PERF_COUNTERS}
    maxd = 0.0
    trace, accs = [], []
    for gid, nodes, ged in sc["graphs"]:
        R = ref_one_graph(nodes, ged, sc["text"], Pv)
        if R["fragile"]:
            return [], True
        for k in COUNTERS:
            tot[k] += R[k]
        for _mk, k in PERF_COUNTERS:
            ptot[k] += R[k]
        maxd = max(maxd, R["max_delta"])
        trace += R["trace"]
        if R["seeds"]:
            accs.append(R["acc"])
        if per_graph[gid] != R["touched"]:
            out.append(("ref:deltas" + tag, "graph %s: touched %s, reference %s" % (gid, per_graph[gid], R["touched"])))
    for k in COUNTERS:
        if m[k] != tot[k]:
            out.append(("ref:counter:%s%s" % (k, tag), "%s=%d, reference %d" % (k, m[k], tot[k])))
    for mk, k in PERF_COUNTERS:
        if mk in m and m[mk] != ptot[k]:
            out.append(("ref:counter:%s%s" % (mk, tag), "%s=%r, reference %d" % (mk, m[mk], ptot[k])))
    if not (isinstance(m.get("max_delta"), (int, float)) and abs(m["max_delta"] - maxd) <= TOL):
        out.append(("ref:max_delta" + tag, "max_delta=%r, reference %r" % (m.get("max_delta"), maxd)))
    if o.odd_items == 0:
        ok = len(o.pop_trace) == len(trace) and all(
            a[0] == b[0] and isinstance(a[1], float) and abs(a[1] - b[1]) <= TOL for a, b in zip(o.pop_trace, trace))
        if not ok:
            out.append(("ref:pop-trace" + tag, "heap pops %s, reference %s" % (o.pop_trace[:8], trace[:8])))
    ok = len(o.accs) == len(accs)
    if ok:
        for a, b in zip(o.accs, accs):
            da = dict(a)
            if set(da) != set(b) or any(abs(da[k] - b[k]) > TOL for k in b):
                ok = False
    if not ok:
        out.append(("ref:activation" + tag, "final activations %s, reference (weight x multiplier x decay) %s" % ([dict(a) for a in o.accs], accs)))
    return out, False


def judge(sc, dev, P, res, store, before, state):
    """all three oracle layers; returns (violations [(sig, what)], outcome class (int), nontrivial)"""
    V = []
    desc = " on edges=%s text=%r cfg=%s" % ([list(e) for e in sc["edges"]], sc["text"], dev)
    if sc.get("nodes") is not None:
        desc += " nodes(id,label,tags)=%s" % ([list(n) for n in sc["nodes"]],)
    if isinstance(res, Exception):
        return [("raises:%s" % type(res).__name__, "t1_propagate raised %r%s" % (res, desc))], -1, True
    m = getattr(res, "metrics", None)
    deltas = getattr(res, "graph_deltas", None)
    if not isinstance(m, dict) or not isinstance(deltas, list):
        return [("result:shape", "T1Result malformed" + desc)], -2, True

    # ---------------- (i) statement invariants
    after = snap_store(store)
    if after != before:
        V.append(("store:modified", "graph store differs after t1_propagate: before=%s after=%s%s" % (before, after, desc)))
    if state.get("active_graphs") != sc["active"] or state.get("store") is not store:
        V.append(("store:state-modified", "state dict modified" + desc))

    node_graph = sc["node_graph"]
    per_graph = {gid: [] for gid in sc["active"]}
    bad_shape = False
    for d in deltas:
        if not (isinstance(d, dict) and d.get("op") == "upsert_node" and d.get("id") in node_graph):
            bad_shape = True
            continue
        per_graph[node_graph[d["id"]]].append(d["id"])
    if bad_shape:
        V.append(("deltas:shape", "unexpected delta entries %s%s" % (deltas, desc)))
    # "in id order per graph": the report is a sequence of per-graph blocks
    owners = [node_graph[d["id"]] for d in deltas if isinstance(d, dict) and d.get("id") in node_graph]
    blocks = [g for i, g in enumerate(owners) if i == 0 or owners[i - 1] != g]
    if len(set(blocks)) != len(blocks):
        V.append(("deltas:interleaved", "deltas of different graphs interleaved (graph per delta: %s): %s%s" % (owners, deltas, desc)))
        blocks = None
    # block order: only compared with what the sequential walk returns for the same input, and only when it is not the
    # listing order of active_graphs (see the end of this function)
    order_suspect = blocks is not None and blocks != [g for g in sc["active"] if g in set(blocks)]
    all_seeds = sc["all_seeds"]
    Lhop = min(P["radius"], P["L"])
    nothing_spreads = (Lhop == 0 or P["Q"] == 0)
    for gid in sc["active"]:
        ids = per_graph[gid]
        es = sc["seeds"][gid]
        dist = sc["dist"][gid]
        if len(set(ids)) != len(ids):
            V.append(("deltas:duplicate", "node reported twice: %s (graph %s)%s" % (ids, gid, desc)))
        if ids != sorted(ids):
            V.append(("deltas:unsorted", "deltas of graph %s not in id order: %s%s" % (gid, ids, desc)))
        outside = [n for n in ids if dist.get(n, FAR) > Lhop]
        if outside:
            V.append(("reach:touched-outside-caps",
                      "touched %s but only %s are within min(radius,layers)=%d hops of the seeds %s%s" % (
                          outside, sorted(n for n, k in dist.items() if k <= Lhop), Lhop, sorted(es), desc)))
        if nothing_spreads and set(ids) != es:
            V.append(("seeds:mismatch", "nothing may spread (a cap is 0) so touched must equal the seeds %s, got %s%s" % (sorted(es), ids, desc)))
        elif sc["no_neg"][gid] and not es <= set(ids):
            V.append(("seeds:mismatch", "seed(s) %s not reported (touched %s)%s" % (sorted(es - set(ids)), ids, desc)))
        elif not es and ids:
            V.append(("seeds:mismatch", "no label/tag occurs in the text but %s touched%s" % (ids, desc)))
    for k in COUNTERS:
        if not (isinstance(m.get(k), int) and not isinstance(m.get(k), bool) and m[k] >= 0):
            V.append(("counter:not-a-count:%s" % k, "metrics[%s]=%r%s" % (k, m.get(k), desc)))
            return V, -3, True
    ng = sc["n_seeded"]          # budgets are per graph
    if m["pops"] > P["Q"] * ng:
        V.append(("budget:pops", "pops=%d > pop budget %d (queue_budget=%s slice t1_pops=%s, %d seeded graph(s))%s" % (
            m["pops"], P["Q"], P["queue"], P["slice_pops"], ng, desc)))
    if m["iters"] > P["L"] * ng:
        V.append(("budget:layers", "iters=%d > layer budget %d (iter_cap=%s iter_cap_layers=%s slice t1_iters=%s)%s" % (
            m["iters"], P["L"], P["iter_cap"], P["layers"], P["slice_iters"], desc)))
    rq = ":relax_cap=0" if P["relax"] == 0 else ""
    if P["relax"] is not None and m["propagations"] > P["relax"] * ng:
        V.append(("budget:relax" + rq, "propagations=%d > relax_cap=%d (%d seeded graph(s))%s" % (m["propagations"], P["relax"], ng, desc)))
    if not all_seeds and (deltas or any(m[k] for k in COUNTERS)):
        V.append(("seeds:mismatch", "no seed expected but work reported: deltas=%s metrics=%s%s" % (deltas, {k: m[k] for k in COUNTERS}, desc)))
    if nothing_spreads and m["propagations"] != 0:
        V.append(("budget:spread-with-zero-cap", "propagations=%d although radius/layer/pop budget is 0%s" % (m["propagations"], desc)))

    # ---------------- (ii) observed work
    o = OBS
    if set(o.seed_sets) != all_seeds or len(o.seed_sets) != len(all_seeds):
        V.append(("seeds:observed", "nodes given initial activation %s != nodes whose label/tag occurs in the text %s%s" % (
            o.seed_sets, sorted(all_seeds), desc)))
    if o.n_pop != m["pops"]:
        V.append(("work:pops-counter", "pops=%d but %d heap pops were performed%s" % (m["pops"], o.n_pop, desc)))
    if o.n_pop > P["Q"] * ng:
        V.append(("budget:pops", "%d heap pops performed > pop budget %d%s" % (o.n_pop, P["Q"], desc)))
    n_acc = o.acc_sets - len(o.seed_sets)
    if n_acc != m["propagations"]:
        V.append(("work:propagations-counter", "propagations=%d but %d accumulations were performed%s" % (m["propagations"], n_acc, desc)))
    if P["relax"] is not None and n_acc > P["relax"] * ng:
        V.append(("budget:relax" + rq, "%d accumulations performed > relax_cap=%d%s" % (n_acc, P["relax"], desc)))
    if o.edges_iter != m["radius_cap_hits"] + m["layer_cap_hits"] + o.weight_reads:
        V.append(("work:edge-accounting", "%d edges visited != radius_cap_hits %d + layer_cap_hits %d + %d evaluated%s" % (
            o.edges_iter, m["radius_cap_hits"], m["layer_cap_hits"], o.weight_reads, desc)))
    if o.weight_reads < n_acc:
        V.append(("work:edge-accounting", "%d accumulations from %d evaluated edges%s" % (n_acc, o.weight_reads, desc)))
    reach = sc["reach"]
    for (a, b) in o.evals:
        if reach.get(a, FAR) + 1 > Lhop:
            V.append(("reach:relaxed-outside-caps", "edge %s->%s evaluated although %s is %s hop(s) from the seeds and min(radius,layers)=%d%s" % (
                a, b, a, reach.get(a), Lhop, desc)))
            break
    if o.over_budget_expansion is not None:
        V.append(("budget:node", "node %s expanded with |activation| %.6g >= node_budget %s%s" % (
            o.over_budget_expansion[0], abs(o.over_budget_expansion[1]), P["node_budget"], desc)))
    if "t1_frontier_evicted" in m and m["t1_frontier_evicted"] != o.evicted:
        q = ":seeding" if o.evicted_seeding >= 2 else ""
        V.append(("work:frontier-evicted-counter" + q, "t1_frontier_evicted=%r but %d frontier entries were dropped (%d of them while seeding)%s" % (
            m["t1_frontier_evicted"], o.evicted, o.evicted_seeding, desc)))

    # ---------------- (iii) reference propagation (only on cases that passed (i) and (ii); relax_cap=0 leaves the
    #                  remaining behaviour open, so only the invariants above apply to it)
    fragile = False
    if not V and P["relax"] != 0:
        tag = "[perf-caps]" if P["perf"] != "off" else ""
        mm, fragile = _ref_mismatches(sc, P, m, per_graph, o, tag)
        if mm and (P["dedupe"] or P["visited"]):
            # the statement does not say what the dedupe window / visited cap do to the walk: accept the
            # documented reading (they filter pushes / repeated expansions) and the reading "no effect"
            Pi = dict(P, dedupe=0, visited=0)
            mm2, fr2 = _ref_mismatches(sc, Pi, m, per_graph, o, tag)
            if fr2 or len(mm2) < len(mm):
                mm, fragile = mm2, fr2
        if mm:
            # one signature per failing case: the most fundamental disagreement (values, then order, then sets, then counters)
            prio = ["ref:activation", "ref:pop-trace", "ref:deltas", "ref:counter", "ref:max_delta"]
            mm.sort(key=lambda x: min(i for i, pfx in enumerate(prio) if x[0].startswith(pfx)))
            V.append((mm[0][0], mm[0][1] + "; all disagreements: " + ", ".join(x[0] for x in mm) + desc))
    outcome = 0
    for x in (len(all_seeds), len(deltas), min(m["pops"], 6), min(m["iters"], 3), min(m["propagations"], 6),
              int(m["radius_cap_hits"] > 0), int(m["layer_cap_hits"] > 0), int(m["node_budget_hits"] > 0),
              int(m.get("t1_frontier_evicted", 0) > 0), int(m.get("t1_dedup_hits", 0) > 0), int(m.get("t1_visited_evicted", 0) > 0),
              int(fragile)):
        outcome = outcome * 8 + x
    nontrivial = bool(m["propagations"] or m["radius_cap_hits"] or m["layer_cap_hits"] or m["node_budget_hits"] or
                      (all_seeds and m["pops"] < len(all_seeds)))
    if order_suspect and dev.get("par", "off") != "off":
        # differential twin (docs/m9/parallel_helper.md: with max_workers > 1 the aggregate must be identical to the
        # sequential path): same scene, same configuration with the gate left at its default.  Run last: it resets OBS.
        ctx2, P2 = make_ctx({k: v for k, v in dev.items() if k != "par"})
        res2 = execute(sc, ctx2, P2)[0]
        d2 = getattr(res2, "graph_deltas", None)
        if isinstance(d2, list) and d2 != deltas:
            V.append(("deltas:graph-order", "fan-out reports the graphs' deltas in another order than the sequential walk of the same input "
                      "(active_graphs listed as %s): fan-out %s, sequential %s%s" % (sc["active"], [d.get("id") for d in deltas],
                                                                                   [d.get("id") for d in d2 if isinstance(d, dict)], desc)))
    return V, outcome, nontrivial


def observe_digest(res):
    if isinstance(res, Exception):
        return ("exc", type(res).__name__, str(res))
    return (repr(res.graph_deltas), repr(sorted(res.metrics.items())), tuple(OBS.pop_trace), OBS.acc_sets, OBS.edges_iter, OBS.weight_reads)


def _check_plain(edges, text, dev, nodes=None):
    ctx, P = make_ctx(dev)
    sc = make_scene(edges, text, P["world"], nodes)
    res, store, before, state = execute(sc, ctx, P)
    V, _oc, _nt = judge(sc, dev, P, res, store, before, state)
    return V


FANOUT_TAG = "@fan-out"


def tag_fanout(V, edges, text, dev, nodes=None):
    """classification only (never decides a verdict): a failure seen with the perf.parallel gate set is re-run with the
    gate left at its default; signatures the sequential walk does not show are marked as specific to the fan-out path"""
    if not V or dev.get("par", "off") == "off":
        return V
    seq = {sig for sig, _w in _check_plain(edges, text, {k: v for k, v in dev.items() if k != "par"}, nodes)}
    return [((sig if sig in seq else sig + FANOUT_TAG), what) for sig, what in V]


def check_case(edges, text, dev, nodes=None):
    edges = [tuple(e) for e in edges]
    if nodes is not None:
        nodes = [(i, l, (list(t) if t is not None else None)) for i, l, t in nodes]
    return tag_fanout(_check_plain(edges, text, dev, nodes), edges, text, dev, nodes)


def _case(edges, text, dev, nodes=None):
    return {"nodes": [[i, l, t] for i, l, t in (nodes or NODES)], "edges": [list(e) for e in edges], "text": text, "cfg": dict(dev)}


def arm_graphs():
    out = []
    for ws in itertools.product((0.125, 1.0), repeat=len(ARM_EDGES)):
        out.append(tuple((a, b, w, "supports") for (a, b), w in zip(ARM_EDGES, ws)))
    return out


def fanin_graphs():
    out = []
    for ws in itertools.product(FANIN_WEIGHTS, repeat=len(FANIN_EDGES)):
        out.append(tuple((a, b, w, "supports") for (a, b), w in zip(FANIN_EDGES, ws)))
    return out


def _t1_view(res):
    if isinstance(res, Exception):
        return ("exc", type(res).__name__)
    m = res.metrics
    return (repr(res.graph_deltas), tuple((k, m.get(k)) for k in COUNTERS))


def _warm_worker(chunk, st: Stats, tier):
    """Budgets bind whatever an earlier call left in the process-global result cache: the same text on the same store is
    propagated first WITHOUT slice caps (cache on), then with the slice caps of the configuration; the second result
    must equal the cold result under those caps (deltas and the six counters)."""
    install()
    devs = [d for d in enum_devs(tier == "thorough", 2) if d.get("slice_pops") is not None or d.get("slice_iters") is not None]
    for edges, nodes, texts in chunk:
        for text in texts:
            for dev in devs:
                loose = {k: v for k, v in dev.items() if k not in ("slice_pops", "slice_iters")}
                ctx_t, P = make_ctx(dev, cache=True)
                ctx_l, _Pl = make_ctx(loose, cache=True)
                sc = make_scene(edges, text, P["world"], nodes)
                for order in ("loose-then-tight", "tight-then-loose"):
                    first, second = (ctx_l, ctx_t) if order == "loose-then-tight" else (ctx_t, ctx_l)
                    store = build_store(sc["graphs"])
                    state = {"store": store, "active_graphs": list(sc["active"])}
                    reset_caches()
                    OBS.reset(P["node_budget"])
                    try:
                        cold = _t1_view(t1mod.t1_propagate(second, {"store": build_store(sc["graphs"]), "active_graphs": list(sc["active"])}, text))
                    except Exception as e:  # noqa
                        cold = _t1_view(e)
                    reset_caches()
                    try:
                        t1mod.t1_propagate(first, state, text)
                        warm = _t1_view(t1mod.t1_propagate(second, state, text))
                    except Exception as e:  # noqa
                        warm = _t1_view(e)
                    finally:
                        reset_caches()
                    st.add("transitions", 3)
                    st.add("validated")
                    st.add("states")
                    st.add("warm_cases")
                    st.distinct("outcomes", ("warm", cold == warm, order))
                    if cold != warm:
                        st.violation("warm-cache:%s:result-differs-from-cold" % order,
                                     "t1_propagate after a call with %s slice caps returned %s, cold under the same caps %s (cache on)" % (
                                         "no" if order == "loose-then-tight" else "tighter", warm, cold),
                                     dict(_case(edges, text, dev, nodes), warm=order))


def _call(ctx, store, active, text):
    try:
        return t1mod.t1_propagate(ctx, {"store": store, "active_graphs": list(active)}, text)
    except Exception as e:  # noqa
        return e


def history_space(tier: str):
    hmax = 3 if tier == "thorough" else 2
    return [h for n in range(2, hmax + 1) for h in itertools.product(range(len(ACTIVE_ALPHA)), repeat=n)]


def _replayed_counters_ok(res, warm, cold, ai):
    """A call that was (partly) served from the result cache performed less work than the cold call; the statement does
    not say whether its counters replay the cached work or count the work of this call.  Both readings are accepted,
    per graph: with cache hits reported, the six counters may be the sum of the cold single-graph counters over any
    subset of the active graphs.  The deltas must be the cold ones in any case."""
    m = getattr(res, "metrics", None)
    if warm[0] == "exc" or cold[ai][0] == "exc" or warm[0] != cold[ai][0] or not isinstance(m, dict):
        return False
    hits = m.get("cache_hits", 0)
    if not (isinstance(hits, int) and hits > 0):
        return False
    per = []
    for gid in ACTIVE_ALPHA[ai]:
        c = cold[ACTIVE_ALPHA.index((gid,))]
        if c[0] == "exc":
            return False
        per.append(dict(c[1]))
    if any(not isinstance(p.get(k), int) for p in per for k in COUNTERS):
        return False
    for mask in itertools.product((0, 1), repeat=len(per)):
        tot = tuple((k, sum(p[k] for p, on in zip(per, mask) if on)) for k in COUNTERS)
        if tot == warm[1]:
            return True
    return False


def run_history(sc, dev, kind, entries, hist, cold=None, store=None):
    """one call history on one store with the result cache on; every call's deltas and six counters must equal those of
    the same call made cold (fresh store, cache off).  Returns (violations, n_calls, cold)"""
    text = sc["text"]
    if cold is None:
        cold = {}
    ctx_cold, P = make_ctx(dev)
    ctx_w, _P = make_ctx(dev, cache=kind, cache_entries=entries)
    n_calls = 0
    for ai in range(len(ACTIVE_ALPHA)):
        if ai not in cold:
            reset_caches()
            OBS.reset(P["node_budget"])
            cold[ai] = _t1_view(_call(ctx_cold, build_store(sc["graphs"]), ACTIVE_ALPHA[ai], text))
            n_calls += 1
    if store is None:
        store = build_store(sc["graphs"])
    before = snap_store(store)
    where = " on edges=%s text=%r cfg=%s" % ([list(e) for e in sc["edges"]], text, dev)
    if sc.get("nodes") is not None:
        where += " nodes(id,label,tags)=%s" % ([list(n) for n in sc["nodes"]],)
    V = []
    reset_caches()
    OBS.reset(P["node_budget"])
    try:
        for pos, ai in enumerate(hist):
            res = _call(ctx_w, store, ACTIVE_ALPHA[ai], text)
            warm = _t1_view(res)
            n_calls += 1
            if warm != cold[ai] and not _replayed_counters_ok(res, warm, cold, ai):
                ids = [d.get("id") if isinstance(d, dict) else None for d in (getattr(res, "graph_deltas", None) or [])]
                if warm[0] == "exc":
                    sig = "call-history:raises:%s" % warm[1]
                elif len(set(map(repr, ids))) != len(ids):
                    sig = "call-history:node-reported-twice"
                elif cold[ai][0] == "exc" or warm[0] != cold[ai][0]:
                    sig = "call-history:deltas-differ-from-cold"
                else:
                    sig = "call-history:counters-differ-from-cold"
                V.append((sig, "call %d of the history %s (active graphs per call; %s cache, %d entries) returned %s, the same call cold returns %s%s"
                          % (pos + 1, [list(ACTIVE_ALPHA[i]) for i in hist], kind, entries, warm, cold[ai], where)))
                break
    finally:
        reset_caches()
    if snap_store(store) != before:
        V.append(("store:modified", "graph store differs after the call history %s (%s cache)%s" % ([list(ACTIVE_ALPHA[i]) for i in hist], kind, where)))
    return V, n_calls, cold


# family "edit histories": the graph is a quantified input ("for all graphs") and the stage keeps a process-global result
# cache, so the graph a call must follow is the one that is in the store NOW, whatever was propagated before.  History =
# call (write call)+ on one store with the result cache on; the writes go through the store's public write API only
# (upsert_edges / upsert_nodes / apply_deltas) and are enumerated over WHAT is written (an existing edge re-assigned:
# same content, weight 0, other relation, other target, [thorough: weight .25, other source]; a new edge; a node
# relabelled so that it stops / starts being a seed; a tag added) x HOW the caller hands it over:
#   fresh         a newly constructed Edge/Node with the same id;
#   inplace       read-modify-write: the live object obtained from get_graph() is edited and passed back to upsert_*;
#   inplace+copy  the live object is edited and an equal copy of it is passed to upsert_*;
#   deltas        apply_deltas([{op: upsert_edge, ...}]).
# An in-place edit that is never written back through the store API is NOT part of the alphabet (the store cannot see
# it).  Oracle: every call equals the same call made cold (cache off, caches reset) on a FRESH store built from the
# content the writes assign (upsert = insert or replace by id), on graph_deltas and the six counters.
EDIT_VIAS_EDGE = ["fresh", "inplace", "inplace+copy", "deltas"]
EDIT_VIAS_NODE_QUICK = ["fresh", "inplace"]
EDIT_VIAS_NODE_THOROUGH = ["fresh", "inplace", "inplace+copy"]


def _graph_g(sc):
    """the enumerated graph 'g' of a scene, wherever the world lists it"""
    return next(g for g in sc["graphs"] if g[0] == "g")


def edit_alphabet(sc, thorough: bool):
    """JSON-able writes on graph 'g' of the scene; every write is an absolute assignment relative to the ORIGINAL scene"""
    _gid, nodes, edges = _graph_g(sc)
    ids = sorted(n[0] for n in nodes)
    W = []
    if edges:
        a, b, w, r = edges[0]
        orig = {"src": a, "dst": b, "weight": w, "rel": r}
        changes = [{}, {"weight": 0.0}, {"rel": "contradicts" if r != "contradicts" else "supports"},
                   {"dst": next(x for x in ids if x != b)}]
        if thorough:
            changes += [{"weight": 0.25}, {"src": next(x for x in ids if x != a)}]
        for ch in changes:
            for via in EDIT_VIAS_EDGE:
                W.append(["edge", 0, dict(orig, **ch), via])
    new_edge = {"src": ids[0], "dst": ids[-1], "weight": 1.0, "rel": "supports"}
    for via in ("fresh", "deltas"):
        W.append(["edge", len(edges), dict(new_edge), via])
    seeds = sc["seeds"]["g"]
    tok = sc["text"].split()[-1].lower()           # a word of the text: whoever holds it becomes a seed
    unseed = next((n for n in ids if n in seeds), None)
    toseed = next((n for n in ids if n not in seeds), None)
    by_id = {n[0]: n for n in nodes}
    for via in (EDIT_VIAS_NODE_THOROUGH if thorough else EDIT_VIAS_NODE_QUICK):
        if unseed is not None:
            W.append(["node", unseed, {"label": "qqq", "tags": None}, via])
        if toseed is not None:
            W.append(["node", toseed, {"label": tok, "tags": by_id[toseed][2]}, via])
            W.append(["node", toseed, {"label": by_id[toseed][1], "tags": list(by_id[toseed][2] or []) + [tok]}, via])
    return W


def model_write(wr, nodes, edges):
    """the documented meaning of a write on the model content: upsert = insert or replace by id"""
    nodes, edges = list(nodes), list(edges)
    if wr[0] == "edge":
        _k, idx, f, _via = wr
        tup = (f["src"], f["dst"], f["weight"], f["rel"])
        if idx < len(edges):
            edges[idx] = tup
        else:
            edges.append(tup)
    else:
        _k, nid, f, _via = wr
        pos = [n[0] for n in nodes].index(nid)
        nodes[pos] = (nid, f["label"], (list(f["tags"]) if f["tags"] is not None else None))
    return nodes, edges


def store_write(store, gid, wr):
    """the same write performed on the real store through its public write API"""
    import dataclasses
    if wr[0] == "edge":
        _k, idx, f, via = wr
        eid = "e%d" % idx
        if via == "fresh":
            store.upsert_edges(gid, [Edge(id=eid, src=f["src"], dst=f["dst"], weight=f["weight"], rel=f["rel"])])
        elif via == "deltas":
            store.apply_deltas(gid, [{"op": "upsert_edge", "id": eid, "src": f["src"], "dst": f["dst"], "weight": f["weight"], "rel": f["rel"]}])
        else:
            e = store.get_graph(gid).edges[eid]
            for k in ("src", "dst", "weight", "rel"):
                setattr(e, k, f[k])
            store.upsert_edges(gid, [e if via == "inplace" else dataclasses.replace(e)])
    else:
        _k, nid, f, via = wr
        attrs = {"tags": list(f["tags"])} if f["tags"] is not None else {}
        if via == "fresh":
            store.upsert_nodes(gid, [Node(id=nid, label=f["label"], attrs=attrs)])
        else:
            n = store.get_graph(gid).nodes[nid]
            n.label = f["label"]
            if f["tags"] is not None:
                n.attrs["tags"] = list(f["tags"])
            else:
                n.attrs.pop("tags", None)
            store.upsert_nodes(gid, [n if via == "inplace" else dataclasses.replace(n, attrs=dict(n.attrs))])


def _content_key(nodes, edges):
    return (tuple((i, l, (tuple(t) if t is not None else None)) for i, l, t in nodes), tuple(tuple(e) for e in edges))


def _subset_counters_ok(res, warm, cold_full, cold_singles):
    """same reading as `_replayed_counters_ok`: a call reporting cache hits may carry the counters of just the graphs it
    really walked (any per-graph subset sum of the cold counters); the deltas must be the cold ones"""
    m = getattr(res, "metrics", None)
    if warm[0] == "exc" or cold_full[0] == "exc" or warm[0] != cold_full[0] or not isinstance(m, dict):
        return False
    hits = m.get("cache_hits", 0)
    if not (isinstance(hits, int) and hits > 0):
        return False
    per = []
    for c in cold_singles():
        if c[0] == "exc":
            return False
        per.append(dict(c[1]))
    if any(not isinstance(p.get(k), int) for p in per for k in COUNTERS):
        return False
    for mask in itertools.product((0, 1), repeat=len(per)):
        if tuple((k, sum(p[k] for p, on in zip(per, mask) if on)) for k in COUNTERS) == warm[1]:
            return True
    return False


def run_edit_history(sc, dev, kind, entries, writes, cold=None):
    """call (write call)+ on one store with the result cache on.  Returns (violations, n_calls, cold, result changed by the writes)"""
    text, active = sc["text"], list(sc["active"])
    if cold is None:
        cold = {}
    ctx_cold, P = make_ctx(dev)
    ctx_w, _P = make_ctx(dev, cache=kind, cache_entries=entries)
    gpos = [g[0] for g in sc["graphs"]].index("g")          # the edited graph keeps its place in the listing / store order
    before_g, after_g = list(sc["graphs"][:gpos]), list(sc["graphs"][gpos + 1:])
    n_calls = [0]

    def cold_view(nodes, edges, act):
        key = (_content_key(nodes, edges), tuple(act))
        if key not in cold:
            saved = (t1mod._T1_CACHE, t1mod._T1_CACHE_CFG, getattr(t1mod, "_T1_CACHE_KIND", None))
            reset_caches()
            OBS.reset(P["node_budget"])
            try:
                cold[key] = _t1_view(_call(ctx_cold, build_store(before_g + [("g", list(nodes), list(edges))] + after_g), act, text))
            finally:
                t1mod._T1_CACHE, t1mod._T1_CACHE_CFG = saved[0], saved[1]
                if hasattr(t1mod, "_T1_CACHE_KIND"):
                    t1mod._T1_CACHE_KIND = saved[2]
            n_calls[0] += 1
        return cold[key]

    where = " on edges=%s text=%r cfg=%s" % ([list(e) for e in sc["edges"]], text, dev)
    if sc.get("nodes") is not None:
        where += " nodes(id,label,tags)=%s" % ([list(n) for n in sc["nodes"]],)
    nodes, edges = list(_graph_g(sc)[1]), list(_graph_g(sc)[2])
    store = build_store(sc["graphs"])
    V = []
    first = last = None
    reset_caches()
    OBS.reset(P["node_budget"])
    try:
        for pos in range(len(writes) + 1):
            via = "first-call"
            if pos:
                wr = writes[pos - 1]
                via = "%s-%s" % (wr[0], wr[3])
                nodes, edges = model_write(wr, nodes, edges)
                try:
                    store_write(store, "g", wr)
                except Exception as e:  # noqa: BLE001 -- the engine's store misbehaves: a finding, not a harness problem
                    V.append(("edit-history:%s:write-raises:%s" % (via, type(e).__name__),
                              "store write %s raised %r after %d call(s)%s" % (wr, e, pos, where)))
                    break
            want = cold_view(nodes, edges, active)
            if pos == 0:
                first = want
            last = want
            before = snap_store(store)
            res = _call(ctx_w, store, active, text)
            warm = _t1_view(res)
            n_calls[0] += 1
            if snap_store(store) != before:
                V.append(("store:modified", "graph store differs after call %d of the edit history %s (%s cache)%s" % (pos + 1, writes, kind, where)))
                break
            if warm != want and not _subset_counters_ok(res, warm, want, lambda: [cold_view(nodes, edges, [g]) for g in active]):
                if warm[0] == "exc":
                    cls = "raises:%s" % warm[1]
                elif want[0] == "exc" or warm[0] != want[0]:
                    cls = "deltas-differ-from-cold"
                else:
                    cls = "counters-differ-from-cold"
                V.append(("edit-history:%s:%s" % (via, cls),
                          "call %d of the history call%s (writes to graph g through the store API; %s cache, %d entries) returned %s, the same call "
                          "cold on a fresh store with the written content (nodes %s, edges %s) returns %s%s"
                          % (pos + 1, "".join(" / write %s / call" % (w,) for w in writes), kind, entries, warm,
                             [list(n) for n in nodes], [list(e) for e in edges], want, where)))
                break
    finally:
        reset_caches()
    return V, n_calls[0], cold, (first != last)


def edit_histories(alpha, tier: str, dev: dict):
    hs = [[w] for w in alpha]
    if tier == "thorough" and not dev:
        hs += [[w1, w2] for w1 in alpha for w2 in alpha]      # two writes, a call after each (default configuration)
    return hs


def _edit_worker(chunk, st: Stats, tier):
    install()
    thorough = tier == "thorough"
    devs = enum_devs(thorough, 1)
    kinds = CACHE_KINDS_THOROUGH if thorough else CACHE_KINDS_QUICK
    for edges, nodes, texts in chunk:
        for text in texts:
            scenes = {w: make_scene(edges, text, w, nodes) for w in WORLDS}
            for dev in devs:
                sc = scenes[dev.get("world", "one")]
                alpha = edit_alphabet(sc, thorough)
                cold = {}
                for hist in edit_histories(alpha, tier, dev):
                    for kind, entries in (kinds if len(hist) == 1 else CACHE_KINDS_QUICK):
                        V, n_calls, cold, changed = run_edit_history(sc, dev, kind, entries, hist, cold)
                        st.add("transitions", n_calls + len(hist))
                        st.add("validated", len(hist) + 1 if not V else 1)
                        st.add("states")
                        st.add("edit_history_cases")
                        st.distinct("outcomes", ("edit", bool(V), changed, hist[-1][0], hist[-1][3]))
                        if changed:
                            st.add("nontrivial")
                            st.add("edit_histories_changing_the_result")
                        for sig, what in V:
                            st.violation(sig, what, dict(_case(edges, text, dev, nodes), edits=[list(w) for w in hist], cache=[kind, entries]))


def _fanin_worker(chunk, st: Stats, tier):
    install()
    devs = [(dev,) + make_ctx(dev) for dev in enum_devs(tier == "thorough", 2 if tier == "thorough" else 1)]
    for edges in chunk:
        for text in FANIN_TEXTS:
            scenes = {w: make_scene(edges, text, w, FANIN_NODES) for w in WORLDS}
            for dev, ctx, P in devs:
                sc = scenes[P["world"]]
                res, store, before, state = execute(sc, ctx, P)
                st.add("transitions")
                st.add("states")
                st.add("fanin_cases")
                # anti-vacuity: an accumulator really ended at / beyond the budget on the negative side
                if any(val <= -P["node_budget"] for acc in OBS.accs for val in dict(acc).values()):
                    st.add("fanin_negative_saturation")
                V, outcome, nontrivial = judge(sc, dev, P, res, store, before, state)
                st.add("validated")
                st.distinct("outcomes", ("fan-in", outcome))
                if nontrivial:
                    st.add("nontrivial")
                for sig, what in tag_fanout(V, edges, text, dev, FANIN_NODES):
                    st.violation(sig, what, _case(edges, text, dev, FANIN_NODES))


def _history_worker(chunk, st: Stats, tier):
    install()
    devs = [dict(d, world="two") for d in enum_devs(tier == "thorough", 1) if "world" not in d]
    kinds = CACHE_KINDS_THOROUGH if tier == "thorough" else CACHE_KINDS_QUICK
    hists = history_space(tier)
    for edges, nodes, texts in chunk:
        for text in texts:
            sc = make_scene(edges, text, "two", nodes)
            for dev in devs:
                cold = {}
                store = None
                for kind, entries in kinds:
                    for hist in hists:
                        if store is None:
                            store = build_store(sc["graphs"])
                        V, n_calls, cold = run_history(sc, dev, kind, entries, hist, cold, store)
                        if V:
                            store = None           # never reuse a store after a failure
                        st.add("transitions", n_calls)
                        st.add("validated", len(hist) if not V else 1)
                        st.add("states")
                        st.add("history_cases")
                        st.distinct("outcomes", ("history", bool(V), tuple(cold[ai][0] == "[]" for ai in hist)))
                        if any(cold[ai][0] not in ("[]", "exc") for ai in hist[1:]):
                            st.add("nontrivial")
                        for sig, what in V:
                            st.violation(sig, what, dict(_case(edges, text, dev, nodes), history=[list(ACTIVE_ALPHA[i]) for i in hist],
                                                         cache=[kind, entries]))


def _keywords_worker(chunk, st: Stats, tier):
    install()
    devs = [(dev,) + make_ctx(dev) for dev in enum_devs(tier == "thorough", 1)]
    if tier == "thorough":
        graphs = enum_graphs(0, [1.0], ["supports"]) + enum_graphs(1, [-0.5, 1.0], ["supports", "zzz"])
    else:
        graphs = enum_graphs(0, [1.0], ["supports"]) + enum_graphs(1, [1.0], ["supports"])
    for nodes in chunk:
        for edges in graphs:
            stores = {}
            for text in KW_TEXTS:
                scenes = {w: make_scene(edges, text, w, nodes) for w in WORLDS}
                for dev, ctx, P in devs:
                    world = P["world"]
                    sc = scenes[world]
                    sb = stores.get(world) or (None, None)
                    res, store, before, state = execute(sc, ctx, P, *sb)
                    st.add("transitions")
                    st.add("states")
                    st.add("keyword_cases")
                    V, outcome, nontrivial = judge(sc, dev, P, res, store, before, state)
                    st.add("validated")
                    st.distinct("outcomes", ("kw", outcome))
                    if len(sc["seeds"]["g"]) > 1 or nontrivial:
                        st.add("nontrivial")
                    if V:
                        case = _case(edges, text, dev, nodes)
                        for sig, what in tag_fanout(V, edges, text, dev, nodes):
                            st.violation(sig, what, case)
                        stores.pop(world, None)
                    else:
                        stores[world] = (store, before)


def _arms_worker(chunk, st: Stats, tier):
    install()
    devs = [(dev,) + make_ctx(dev) for dev in enum_devs(tier == "thorough", 2 if tier == "thorough" else 1)]
    for edges in chunk:
        for text in ARM_TEXTS:
            scenes = {w: make_scene(edges, text, w, ARM_NODES) for w in WORLDS}
            for dev, ctx, P in devs:
                sc = scenes[P["world"]]
                res, store, before, state = execute(sc, ctx, P)
                st.add("transitions")
                st.add("states")
                st.add("arm_cases")
                V, outcome, nontrivial = judge(sc, dev, P, res, store, before, state)
                st.add("validated")
                st.distinct("outcomes", ("arms", outcome))
                if nontrivial:
                    st.add("nontrivial")
                for sig, what in tag_fanout(V, edges, text, dev, ARM_NODES):
                    st.violation(sig, what, _case(edges, text, dev, ARM_NODES))


FANOUT_BASE = {"par": "on", "world": "two"}


def fanout_devs(thorough: bool, k: int):
    """two graphs handed to the fan-out, plus every assignment with <= k further deviations over the other dimensions"""
    return [dict(d, **FANOUT_BASE) for d in enum_devs(thorough, k) if not (set(d) & set(FANOUT_BASE))]


def fanout_k(tier: str, edges) -> int:
    return 2 if (tier == "thorough" and len(edges) <= 1) else 1


def _fanout_worker(chunk, st: Stats, tier):
    """fan-out leg: the aggregate over SEVERAL per-graph walks under a binding cap needs three deviations (gate, second
    graph, cap), one more than the main leg allows; same executions and same three oracle layers as the main leg"""
    _worker(chunk, st, tier, True)


def _worker(chunk, st: Stats, tier, fanout=False):
    install()
    space = graph_space(tier)
    devs = {}
    for k in (1, 2):
        dl = fanout_devs(tier == "thorough", k) if fanout else enum_devs(tier == "thorough", k)
        devs[k] = [(dev,) + make_ctx(dev) for dev in dl]
    first = not fanout
    for gi in chunk:
        edges, kdev = space[gi]
        if fanout:
            kdev = fanout_k(tier, edges)
        stores = {}
        for text in TEXTS:
            scenes = {w: make_scene(edges, text, w) for w in WORLDS}
            for dev, ctx, P in devs[kdev]:
                world = P["world"]
                sc = scenes[world]
                sb = stores.get(world) or (None, None)
                if first:
                    first = False
                    d1 = observe_digest(execute(sc, ctx, P)[0])
                    if observe_digest(execute(sc, ctx, P)[0]) != d1:
                        raise HarnessError("harness nondeterministic: two executions of %s differ" % (_case(edges, text, dev),))
                res, store, before, state = execute(sc, ctx, P, *sb)
                st.add("transitions")
                st.add("states")
                if fanout:
                    st.add("fanout_cases")
                if OBS.pools:
                    st.add("pool_executions")           # anti-vacuity: the stage really went through the fan-out
                    st.add("pool_tasks", OBS.pool_tasks)
                V, outcome, nontrivial = judge(sc, dev, P, res, store, before, state)
                st.add("validated")
                st.distinct("outcomes", ("fan-out", outcome) if fanout else outcome)
                if outcome >= 0 and outcome % 8:
                    st.add("ref_exempt_near_tie")          # layer (iii) skipped: a decision hinged on < 1e-12
                elif P["relax"] == 0:
                    st.add("ref_exempt_relax_cap_0")
                elif not V or any(sig.startswith("ref:") for sig, _w in V):
                    st.add("ref_compared")                 # layers (i)+(ii) clean -> compared with the reference
                if nontrivial:
                    st.add("nontrivial")
                if V:
                    st.add("failing_cases")
                    case = _case(edges, text, dev)
                    for sig, what in tag_fanout(V, edges, text, dev):
                        st.violation(sig, what, case)
                    stores.pop(world, None)        # never reuse a store after a failure
                else:
                    stores[world] = (store, before)
        if gi % 211 == 0 and not fanout:
            dl = devs[kdev]
            st.sample(_case(edges, TEXTS[(gi // 211) % len(TEXTS)], dl[(gi * 7) % len(dl)][0]))


def run(run: Run) -> None:
    install()
    tier = "thorough" if run.thorough else "quick"
    space = graph_space(tier)
    d1, d2 = enum_devs(run.thorough, 1), enum_devs(run.thorough, 2)
    n2 = sum(1 for _g, k in space if k == 2)
    run.notes["graphs_le2_edges"] = n2
    run.notes["graphs_3_edges"] = len(space) - n2
    run.notes["configs_le2_deviations"] = len(d2)
    run.notes["configs_le1_deviation"] = len(d1)
    run.notes["texts"] = len(TEXTS)
    run.notes["config_dimensions"] = {n: [repr(x) for x in v] for n, v in dims_for(run.thorough)}
    run.rule = ("every directed multigraph on 3 labelled nodes (one tag) with <=1 edge over 9 ordered pairs incl. self-loops x weights "
                "{-.5,0,.5,1} x relations {supports,associates,unknown}, every 2-edge multigraph incl. doubled pairs and both adjacency "
                "orders of same-source edges over " + ("the same edge alphabet" if run.thorough else "weights {-.5,1} x {supports,unknown}")
                + (", plus every 3-edge multigraph over weights {-.5,1} x {supports,unknown} with <=1 config deviation" if run.thorough else "")
                + " x 5 texts (no seed, label, substring + 2 labels, tag, all three) x every config with <=2 deviations over %d dimensions; " % len(DIMS) +
                "non-trivial = at least one propagation or cap/budget hit, or pops cut below the number of seeds")
    run.pmap(_worker, list(range(len(space))), extra=(tier,))
    fan_items = [gi for gi, (g, _k) in enumerate(space) if len(g) <= 2]
    run.notes["fanout_graphs"] = len(fan_items)
    run.notes["fanout_configs"] = {"<=1 further deviation": len(fanout_devs(run.thorough, 1))}
    if run.thorough:
        run.notes["fanout_configs"]["<=2 further deviations (graphs with <=1 edge)"] = len(fanout_devs(True, 2))
    run.pmap(_fanout_worker, fan_items, extra=(tier,))
    run.notes["arm_graphs"] = len(arm_graphs())
    run.pmap(_arms_worker, arm_graphs(), extra=(tier,))
    warm_items = [(g, None, TEXTS[1:]) for g, _k in space if len(g) <= 1] + [(g, ARM_NODES, ARM_TEXTS[:1]) for g in arm_graphs()[::7]]
    run.notes["warm_scenes"] = len(warm_items)
    run.pmap(_warm_worker, warm_items, extra=(tier,))
    kw_sets = keyword_nodesets()
    run.notes["keyword_holder_nodesets"] = len(kw_sets)
    run.pmap(_keywords_worker, kw_sets, extra=(tier,))
    hist_items = ([(g, None, [t]) for g in enum_graphs(0, [1.0], ["supports"]) + enum_graphs(1, [1.0], ["supports"]) for t in TEXTS[1:]]
                  + [(g, ARM_NODES, ARM_TEXTS[:1]) for g in arm_graphs()[::7]])
    run.notes["history_scenes"] = sum(len(t) for _g, _n, t in hist_items)
    run.notes["call_histories"] = len(history_space(tier))
    run.notes["history_cache_kinds"] = [list(k) for k in (CACHE_KINDS_THOROUGH if run.thorough else CACHE_KINDS_QUICK)]
    run.pmap(_history_worker, hist_items, extra=(tier,), procs=NCPU)
    run.notes["fanin_graphs"] = len(fanin_graphs())
    run.pmap(_fanin_worker, fanin_graphs(), extra=(tier,))
    if run.thorough:
        edit_items = [(g, None, [t]) for n in (0, 1) for g in enum_graphs(n, [-0.5, 1.0], ["supports", "zzz"]) for t in TEXTS[1:]]
    else:
        edit_items = [(g, None, [t]) for g in enum_graphs(0, [1.0], ["supports"]) + enum_graphs(1, [1.0], ["supports"]) for t in TEXTS[1:]]
    edit_items += [(g, ARM_NODES, ARM_TEXTS[:1]) for g in arm_graphs()[::7]]
    run.notes["edit_history_scenes"] = len(edit_items)
    run.notes["edit_history_writes_per_scene"] = "<= %d" % max(
        len(edit_alphabet(make_scene(g, t[0], "one", n), run.thorough)) for g, n, t in edit_items)
    run.pmap(_edit_worker, edit_items, extra=(tier,), procs=NCPU)
    run.rule += ("; the dimension 'world' is the caller's list of active graphs: g alone, g then h (ids ascending), or h then g (listing order "
                 "that is not the sorted order of the graph ids; the store is filled in the same order); deltas must form one block per graph, and a "
                 "fan-out result whose blocks do not follow the listing order is compared with the sequential walk of the same input (identical delta list required)")
    run.rule += ("; the dimension 'par' is the entry path: graphs walked one after the other (default) or handed to the per-graph fan-out "
                 "behind the perf.parallel gate (enabled + t1 + max_workers 4" + ("; thorough also max_workers 1, where the gate stays closed" if run.thorough else "")
                 + "); plus fan-out leg: gate set AND two active graphs, every <=2-edge graph of the main leg x 5 texts x every config with <=1 "
                 "further deviation" + (" (<=2 on graphs with <=1 edge)" if run.thorough else "") + " over the other %d dimensions (so a binding cap meets "
                 "the aggregate over several per-graph walks), judged by the same three oracle layers" % (len(DIMS) - 2))
    run.rule += ("; plus keyword holders: every assignment of labels {apple, Apple, pear} to the 3 nodes x tag lists {none, [APPLE], [Pear, pear]} on "
                 "one node x {none, [apple]} on another (162 node sets: keywords unique / shared by 2-3 nodes as label or tag / doubled on one "
                 "node) x " + ("<=1-edge graphs over weights {-.5,1} x {supports,unknown}" if run.thorough else "<=1-edge graphs (weight 1, supports)")
                 + " x 3 texts x every config with <=1 deviation, judged by the same three oracle layers"
                 "; plus call histories: every sequence of " + ("2..3" if run.thorough else "2") + " calls over the active-graph lists "
                 "{[g,h],[g],[h,g],[h]} on one store with the result cache ON (" + ("lru and bytes, 64 and 1 entries" if run.thorough else "lru and bytes, 64 entries")
                 + "), same text and config (<=1 deviation, two graphs), <=1-edge graphs (weight 1, supports) x 4 seeding texts + 10 arm graphs: "
                 "each call's deltas must equal those of the same call made cold, and so must its six counters (a call reporting cache "
                 "hits may instead omit the cached graphs' work)")
    run.rule += ("; plus fan-in: 5 nodes, three feeders a,b,c -> v -> w, every weight assignment over {-2,-1,1,2} on the 4 edges (256 graphs) x texts seeding "
                 "{a,b}, {a,b,c}, {a,b,v} x every config with <=" + ("2 deviations" if run.thorough else "1 deviation") + ": v crosses the per-node budget from "
                 "either side, or returns under it, between being queued and being popped; judged by the same three oracle layers"
                 "; plus edit histories: call (write call)" + ("{1,2} (two writes: default configuration, 64-entry caches)" if run.thorough else "")
                 + " on one store with the result cache ON (" + ("lru and bytes, 64 and 1 entries" if run.thorough else "lru and bytes, 64 entries")
                 + "), config <=1 deviation, " + ("<=1-edge graphs over weights {-.5,1} x {supports,unknown}" if run.thorough else "<=1-edge graphs (weight 1, supports)")
                 + " x 4 seeding texts + 10 arm graphs; writes go through the store's write API: the first edge re-assigned (same content / weight 0 / "
                 "other relation / other target" + (" / weight .25 / other source" if run.thorough else "") + ") as a fresh Edge, as the live object edited in "
                 "place and passed back to upsert_edges, as an equal copy of the edited live object, or via apply_deltas; a new edge (fresh / "
                 "apply_deltas); a seed relabelled away, a non-seed relabelled or tagged with a word of the text (fresh Node / live object edited in place "
                 "and passed back to upsert_nodes" + (" / equal copy" if run.thorough else "") + "); every call must equal the same call made cold on a fresh "
                 "store built from the written content (deltas and six counters; a call reporting cache hits may omit the cached graphs' work)")
    run.assume("edit histories: the store's write API means insert-or-replace by id (upsert_edges, upsert_nodes, apply_deltas upsert_edge); objects "
               "handed out by get_graph() are live and may be edited by the caller, but an edit only counts once it has been passed back through "
               "the write API - an in-place edit that is never written back is not part of the history alphabet (the store cannot see it), and "
               "neither are writes that by-pass the store")
    run.assume("the per-graph fan-out (perf.parallel gate) is executed with its workers run one at a time in submission order: "
               "`ThreadPoolExecutor` inside clematis.engine.util.parallel is replaced by an inline pool that runs each submitted task at "
               "once and hands back a completed Future; the stage's task list, run_parallel, merge and unpacking code are the real ones. "
               "Thread schedules and completion orders of a real pool are C09's subject. A signature ending in '" + FANOUT_TAG + "' was not "
               "shown by the same case with the gate at its default (classification by a re-run, after the verdict)")
    run.assume("the stage result cache is disabled in the "
               "single-call legs (t1.cache.enabled=false, perf cache sizes 0) and ON in the warm-cache, call-history and edit-history legs, where the oracle "
               "is the differential twin 'same call, cold' on graph_deltas and the six work counters only (max_delta, cache_* and perf "
               "counters of a cache hit are left to C05); in the call-history leg a call that reports cache hits may also carry the "
               "counters of just the graphs it really walked (any per-graph subset sum of the cold counters) - the statement does not "
               "say whether a hit replays or omits the cached work")
    run.assume("nodes that hold the same matched keyword are seeded in an order the documentation does not fix; layer (iii) is therefore not "
               "evaluated where that order matters (perf.t1.dedupe_window set and a matched keyword held by two nodes)")
    run.assume("an edge whose relation is missing from t1.edge_type_mult spreads with multiplier 0.6 (the 'associates' value; 'associates' is the store's default relation); the statement does not name the fallback")
    run.assume("activation values are not part of T1Result (deltas carry ids only); the rule weight x multiplier x decay(hop distance) is observed through the accumulator/heap proxies and, black-box, through touched sets, counters and max_delta")
    run.assume("layer (iii) pins the pop order (larger |contribution|, then node id, then signed value), the seeding order (sorted lower-cased label/tag), 'stop at once when relax_cap is reached' and the frontier cap keeping the best entries; it is evaluated on cases that passed layers (i)/(ii), not for relax_cap=0, and not where a reference decision hinges on a difference < 1e-12")
    run.assume("perf.t1 dedupe_window / caps.visited: the statement does not say how they alter the walk; layer (iii) accepts both the documented reading (filter pushes / repeated expansions) and 'no effect'")
    run.assume("engine Config objects with every t1.* key set explicitly (incl. t1.decay, relax_cap, iter_cap_layers as the stage reads them); decay parameters fixed per mode: exp_floor(rate .6, floor .05), attn_quad(alpha .8)")


def _case_nodes(case):
    """node set of a stored case; None for the default NODES"""
    nodes = case.get("nodes")
    if nodes is None or [list(n) for n in nodes] == [[i, l, t] for i, l, t in NODES]:
        return None
    return [(i, l, (list(t) if t is not None else None)) for i, l, t in nodes]


def replay(case):
    nodes = _case_nodes(case)
    if case.get("warm"):
        st = Stats()
        _warm_worker([([tuple(e) for e in case["edges"]], nodes, [case["text"]])], st, "thorough")
        return [(sg, w) for sg, (w, _c) in st.viol.items()]
    if case.get("edits") is not None:
        install()
        edges = [tuple(e) for e in case["edges"]]
        dev = dict(case["cfg"])
        sc = make_scene(edges, case["text"], dev.get("world", "one"), nodes)
        kind, entries = case["cache"]
        return run_edit_history(sc, dev, kind, int(entries), [list(w) for w in case["edits"]])[0]
    if case.get("history"):
        install()
        edges = [tuple(e) for e in case["edges"]]
        sc = make_scene(edges, case["text"], "two", nodes)
        hist = [ACTIVE_ALPHA.index(tuple(a)) for a in case["history"]]
        kind, entries = case["cache"]
        V, _n, _cold = run_history(sc, dict(case["cfg"]), kind, int(entries), hist)
        return V
    return check_case(case["edges"], case["text"], case["cfg"], nodes)
