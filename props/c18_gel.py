"""C18 — GEL edge weights bounded, decay monotone, keys canonical, observation order-insensitive,
maintenance passes non-destructive, gate off => graph untouched.

Engine E1 (explicit-state BFS over operation histories) on the REAL functions of clematis/engine/gel.py.

Legs
  B  history BFS: for every validator-accepted config with <=2 deviations from the defaults (9 dimensions,
     see DIMS) and every initial graph {absent, G4 (5 nodes / 4 edges, weights inside the config's clamp
     interval)}, all histories up to depth d over the operation alphabet
         observe(L) for L in a curated list alphabet (ties, NaN, threshold boundary, duplicate ids),
         tick(dt) dt in {0,1,5}, merge pass, split pass, promote pass (strung together as core.py does)
     with canonical-state hashing (a state = canonical JSON of state.graph + the set of promotion-written
     edges).  At every observe transition ALL distinct permutations of the item list are executed.  At
     every new state every operation is also executed with graph.enabled=false (gate off => untouched).
     quick: d=3, 5 lists.  thorough: d=4 (configs with <=1 deviation: 9 lists incl. two with 24 orders;
     default config additionally d=5).
  A  single-step exhaustive observe: every multiset of <=3 (thorough <=4) items over ids {a,b,c} x
     scores {NaN,.1,.2,.5,.9}, in every distinct order, from {absent, G4}, for every config whose
     deviations are all observe-relevant (2-deviation configs: one item fewer).
  E  item representation: observe_retrieval takes "items that carry (id, score)" and the orchestrator hands it
     whatever T2 retrieved ("gel adapts dicts/objs/tuples"), so the SAME (id, score) content is also presented in
     every representation of SHAPES: tuple, {"id","score"} dict, EpisodeRef dataclass, __slots__ ref object (the
     shape T2 really produces), and dict / attribute objects that additionally carry the fields retrieval hits
     have besides the score (owner, text and the score-like aliases similarity / sim / weight / _score, set to a
     DECOY value on the other side of the threshold: 1-score).  Every multiset of <=2 (thorough <=3) items over
     ids {a,b,c} x scores {NaN, 0, .1, .2, .5, .9, 1} (the documented score range [0,1] incl. both end points; 0.0
     is the one score that is falsy), in every homogeneous representation and (<=2 items; quick: default config
     only, thorough: configs with <=1 deviation) every mixed assignment of representations to items, in every distinct order, from {absent, G4}, for the
     observe-relevant configs with <=1 deviation (thorough: 2 deviations with one item fewer); judged by the same
     observe oracle on the items' (id, score) content.  An item's score is its `score`; other fields are not the score.
  F  the disk boundary: state.graph is written into the agent's snapshot every turn and restored by the boot hook
     (load_latest_snapshot), so a history also contains "persist" steps and may START from a graph that came out of
     a snapshot FILE.  G4 is written by the engine's own writer and the same GEL content is presented to the loader
     in every on-disk shape the loader documents as accepted: edges as dict keyed by 'src→dst' in record order / by
     the canonical key / by a legacy 'src__dst__rel' id, or as a list of records; the records listing their two
     endpoints sorted / reversed / alternating; the section under `gel` or (legacy) `graph`.  Every restored graph is
     judged (canonical key per unordered pair, one edge per pair, bounds preserved) and the distinct restored graphs
     plus `absent` are the roots of a BFS over the operation alphabet + persist (write_snapshot, then
     load_latest_snapshot into a fresh state) with the per-step oracles of leg B.
  C  closed gate x 4 ctx shapes (dict / ns.cfg / ns.config / both) x 4 stores, incl. "graph key absent".
  D  (cheap) one real orchestrator turn with graph.enabled=false (sub-gates on) over a pre-seeded
     state['graph'], and the same turn with the gate on (anti-vacuity).

Validator boundary (the quantifier's domain is "every setting ACCEPTED BY THE VALIDATOR", so the candidate
alphabet has to straddle the validator's acceptance boundary): every dimension additionally carries the
special / out-of-range candidates of EDGE (NaN, +-inf, 0, negative, just outside the documented range,
empty or inverted clamp interval, unknown mode).  Each candidate config (<=2 deviations, ordinary and
special values mixed) is put through validate_config; the rejected ones are outside the quantifier (counted),
the accepted ones are explored by legs A/B/C exactly like the ordinary ones.  Where an accepted special value
leaves a clause of the statement without meaning (half-life <= 0, NaN floor) that clause is skipped and the
invariants (bounds, no magnitude increase, keys, caps) are still judged; an exception raised by a GEL function
under a validator-accepted config is a violation (<op>:raises), not a harness error.

Oracle (derived from the property statement + docs/m11/overview.md, not from the code): see the
check_* functions; each transition is checked for *preserving* the invariant (edges in bounds before
the step must be in bounds after it), so one defect yields one signature.
"""
from __future__ import annotations

import itertools
import json
import os
import types

from mc.runner import Run, Stats, HarnessError, h64

from clematis.engine import gel
from configs.validate import validate_config

NAN = float("nan")
INF = float("inf")
ARROW = "→"
EPS = 1e-9
TURN = 7  # constant logical turn handed to observe/tick (keeps last_seen_turn out of the state explosion)

# ------------------------------------------------------------------ configuration space
# dimension -> list of values, first = default.  "clamps" sets two keys at once.
DIMS = [
    ("mode", ["additive", "proportional"]),
    ("alpha", [0.02, 0.6, 0.5]),
    ("clamps", [(-1.0, 1.0), (0.0, 0.5), (-0.25, 0.25), (0.25, 0.75)]),
    ("half_life", [200, 1, 2]),
    ("floor", [0.0, 0.1, 0.3, 0.25]),
    ("top_k", [64, 1, 2, 3]),
    ("pair_cap", [2048, 0, 1, 2]),
    ("threshold", [0.2, 0.5]),
    ("attach", [0.5, 1.0, -0.5, 0.125]),   # 0.125 lies below the positive clamp_min 0.25 of the 4th clamp interval
]
# special candidates per dimension: values on / beyond the validator's acceptance boundary.  They are ordinary
# members of the configuration alphabet (same <=2-deviation treatment); validate_config decides membership.
EDGE = {
    "mode": ["multiplicative"],
    "alpha": [NAN, INF, 0.0, -0.5],
    "clamps": [(NAN, 1.0), (-1.0, NAN), (-INF, 1.0), (-1.0, INF), (0.5, 0.5), (0.75, 0.25)],
    "half_life": [0, -1, NAN, INF],
    "floor": [NAN, INF, -0.1, 2.0],
    "top_k": [0, -1],
    "pair_cap": [-1],
    "threshold": [NAN, -0.1, 1.5],
    "attach": [NAN, 2.0, -2.0],
}
DIMS_X = [(k, list(v) + list(EDGE.get(k, []))) for k, v in DIMS]
OBSERVE_DIMS = {"mode", "alpha", "clamps", "top_k", "pair_cap", "threshold"}
DIM_DEFAULT = {k: v[0] for k, v in DIMS}


def raw_graph_cfg(devs: dict, enabled: bool = True) -> dict:
    p = dict(DIM_DEFAULT)
    p.update(devs)
    lo, hi = p["clamps"]
    return {
        "enabled": enabled,
        "coactivation_threshold": p["threshold"],
        "observe_top_k": p["top_k"],
        "pair_cap_per_obs": p["pair_cap"],
        "update": {"mode": p["mode"], "alpha": p["alpha"], "clamp_min": lo, "clamp_max": hi},
        "decay": {"half_life_turns": p["half_life"], "floor": p["floor"]},
        # the sub-gates are orchestrator-level; the passes below are executed the way core.py does
        "merge": {"enabled": True},
        "split": {"enabled": True},
        "promotion": {"enabled": True, "attach_weight": p["attach"]},
    }


def all_devs(max_dev: int = 2):
    out = [{}]
    for k, vals in DIMS_X:
        for v in vals[1:]:
            out.append({k: v})
    if max_dev >= 2:
        for (k1, v1s), (k2, v2s) in itertools.combinations(DIMS_X, 2):
            for v1 in v1s[1:]:
                for v2 in v2s[1:]:
                    out.append({k1: v1, k2: v2})
    return out


def _jsonable_devs(devs: dict) -> dict:
    return {k: (list(v) if isinstance(v, tuple) else v) for k, v in devs.items()}


def _devs_from_json(devs: dict) -> dict:
    return {k: (tuple(v) if isinstance(v, list) else v) for k, v in devs.items()}


class Cfg:
    """A validated config + the oracle's own reading of the parameters (from the validated dict)."""

    def __init__(self, devs: dict):
        self.devs = dict(devs)
        self.accepted = True
        self.unreadable = None
        try:
            self.full = validate_config({"graph": raw_graph_cfg(devs, True)})
            self.full_off = validate_config({"graph": raw_graph_cfg(devs, False)})
        except Exception as e:  # ConfigError: outside the quantifier
            self.accepted = False
            self.err = str(e)
            return
        g = self.full["graph"]
        if g.get("enabled") is not True or self.full_off["graph"].get("enabled") is not False:
            raise HarnessError("validator did not keep graph.enabled")
        self.ctx = types.SimpleNamespace(cfg=self.full, config=self.full)
        self.ctx_off = types.SimpleNamespace(cfg=self.full_off, config=self.full_off)
        try:
            self.thr = float(g["coactivation_threshold"])
            self.top_k = int(g["observe_top_k"])
            self.pair_cap = int(g["pair_cap_per_obs"])
            self.lo = float(g["update"]["clamp_min"])
            self.hi = float(g["update"]["clamp_max"])
            self.H = float(g["decay"]["half_life_turns"])
            self.floor = float(g["decay"]["floor"])
            self.attach = float(g["promotion"]["attach_weight"])
            self.cap_m = int(g["merge"]["cap_per_turn"])
            self.cap_s = int(g["split"]["cap_per_turn"])
            self.cap_p = int(g["promotion"]["cap_per_turn"])
        except Exception as e:
            # the validator accepted and "normalised" a GEL parameter that is not a number: the clauses of the
            # statement that refer to it cannot hold for this config (reported by run(), config not explored)
            self.unreadable = "%s: %s" % (type(e).__name__, str(e)[:160])
            return
        # clauses that keep a meaning under this config
        self.decay_defined = self.H > 0                    # False for 0, negative, NaN
        self.floor_defined = self.floor == self.floor      # False for NaN
        self.attach_eff = min(max(self.attach, -1.0), 1.0) if self.attach == self.attach else self.attach

    def inb(self, w: float) -> bool:
        return (self.lo - 1e-12) <= w <= (self.hi + 1e-12)


# ------------------------------------------------------------------ states
FULL_META = {"schema": "v1", "merges": [], "splits": [], "promotions": [], "concept_nodes_count": 0}
_FULL_META_J = json.dumps(FULL_META)


def _edge(a, b, w):
    s, d = (a, b) if a <= b else (b, a)
    k = "%s%s%s" % (s, ARROW, d)
    return k, {"id": k, "src": s, "dst": d, "weight": float(w), "rel": "coact", "updated_at": None,
               "attrs": {"coact": 1, "last_seen_turn": None}}


def finite_bounds(c: Cfg):
    """a finite interval inside the config's clamp interval for seeding the initial weights, or None when the
    accepted clamp interval is empty / NaN (then no initial weight can satisfy the invariant: only 'absent')"""
    lo, hi = c.lo, c.hi
    if lo != lo or hi != hi or lo > hi or lo == INF or hi == -INF:
        return None
    if lo == -INF:
        lo = -1.0 if hi == INF else min(-1.0, hi - 2.0)
    if hi == INF:
        hi = max(1.0, lo + 2.0)
    return lo, hi


def inits_for(c: Cfg):
    return [i for i in INITS if i == "absent" or finite_bounds(c) is not None]


def initial_store(name: str, c: Cfg):
    """'absent' -> None (state has no graph attribute); 'G4' -> 5 nodes, 4 edges inside [lo, hi]."""
    if name == "absent":
        return None
    fb = finite_bounds(c)
    if fb is None:
        return None
    lo, hi = fb
    strong = hi
    mid = hi / 2 if hi / 2 >= lo else hi
    weak = min(max(0.03125, lo), hi)
    neg = lo / 2 if lo < 0 else mid
    edges = dict([_edge("a", "b", strong), _edge("b", "c", mid), _edge("c", "d", weak), _edge("d", "e", neg)])
    nodes = {n: {"id": n, "label": n.upper(), "attrs": {}} for n in "abcde"}
    return {"nodes": nodes, "edges": edges, "meta": json.loads(json.dumps(FULL_META))}


INITS = ["absent", "G4"]


def mk_state(store_json: str):
    st = types.SimpleNamespace()
    store = json.loads(store_json)
    if store is not None:
        st.graph = store
    return st


def store_of(state):
    return getattr(state, "graph", None)


def dump(store) -> str:
    return json.dumps(store, sort_keys=True, ensure_ascii=False)


def norm_store(store, copy: bool = True):
    """None == the empty store the implementation would create (meta bookkeeping keys are annotation).
    copy=False normalises in place (only for stores that are discarded afterwards)."""
    if store is None:
        return {"nodes": {}, "edges": {}, "meta": json.loads(_FULL_META_J)}
    s = json.loads(dump(store)) if copy else store
    s.setdefault("nodes", {})
    s.setdefault("edges", {})
    m = s.setdefault("meta", {})
    for k, v in FULL_META.items():
        if k not in m:
            m[k] = json.loads(json.dumps(v))
    return s


def wt(rec) -> float:
    return float(rec.get("weight", 0.0))


# ------------------------------------------------------------------ operation alphabet
def observe_lists(thorough: bool):
    L = [
        [["a", 0.9], ["b", 0.5]],                              # one pair
        [["a", 0.9], ["b", 0.5], ["c", 0.5]],                  # three pairs, score tie b/c (top-k cut inside a tie)
        [["c", 0.5], ["a", 0.2], ["a", NAN]],                  # threshold boundary, NaN, duplicate id
        [["a", 0.9], ["a", 0.5], ["b", 0.5], ["b", 0.5]],      # duplicate ids above threshold, identical items
        [["b", 0.9], ["c", 0.1], ["c", 0.9]],                  # duplicate id, one copy below threshold
    ]
    if thorough:
        L += [
            [["c", 0.5], ["b", 0.5], ["a", 0.2], ["a", NAN]],  # 24 orders
            [["a", 0.9], ["a", 0.5], ["b", 0.5], ["c", 0.9]],  # 24 orders
            [["a", 0.2], ["b", 0.2], ["c", 0.2], ["c", 0.1]],
            [["a", NAN], ["b", NAN], ["c", 0.1]],
        ]
    return L


def ops_alphabet(thorough: bool):
    ops = [["observe", L] for L in observe_lists(thorough)]
    ops += [["tick", 0], ["tick", 1], ["tick", 5]]
    ops += [["merge"], ["split"], ["promote"]]
    return ops


def distinct_perms(items):
    seen = set()
    out = []
    for p in itertools.permutations(range(len(items))):
        key = tuple(repr(items[i]) for i in p)
        if key in seen:
            continue
        seen.add(key)
        out.append([items[i] for i in p])
    return out


def as_tuples(items):
    """the (id, score) content of an item list; an item is [id, score] or [id, score, representation]"""
    return [(str(it[0]), float(it[1])) for it in items]


# ---- item representations (leg E).  One (id, score) content, several carriers.
try:  # the dataclass the engine's own T2Result.retrieved is typed with
    from clematis.engine.types import EpisodeRef as _EpisodeRef
    _EpisodeRef(id="a", owner="A", score=0.5, text="")
except Exception:  # a tree without it: a field-for-field twin
    import dataclasses as _dc

    @_dc.dataclass
    class _EpisodeRef:  # type: ignore[no-redef]
        id: str
        owner: str
        score: float
        text: str = ""


class _SlotsRef:
    """field-for-field twin of the __slots__ reference object T2 puts into `retrieved` (no __dict__)"""
    __slots__ = ("id", "text", "score")

    def __init__(self, i, s):
        self.id = i
        self.text = ""
        self.score = s


# fields a retrieval hit carries besides its score; the numeric, score-like ones (the alias names the repo's own
# hybrid reranker / T2 helpers list) are set to the decoy value
SCORE_ALIASES = ("similarity", "sim", "weight", "_score")
SHAPES = ["tuple", "dict", "ref", "slots", "dict+", "obj+"]


def decoy(s: float) -> float:
    """a value on the other side of every threshold in (0,1) the score is not on: the complement in [0,1]"""
    return 1.0 - s if s == s else 0.9


def build_item(it):
    i, s = str(it[0]), float(it[1])
    shape = it[2] if len(it) > 2 else "tuple"
    if shape == "tuple":
        return (i, s)
    if shape == "dict":
        return {"id": i, "score": s}
    if shape == "ref":
        return _EpisodeRef(id=i, owner="A", score=s, text="")
    if shape == "slots":
        return _SlotsRef(i, s)
    extras = {k: decoy(s) for k in SCORE_ALIASES}
    if shape == "dict+":
        d = dict(extras)
        d.update({"owner": "A", "text": "", "id": i, "score": s})
        return d
    if shape == "obj+":
        return types.SimpleNamespace(id=i, owner="A", score=s, text="", **extras)
    raise HarnessError("unknown item representation %r" % (shape,))


def as_engine_items(items):
    return [build_item(it) for it in items]


# ------------------------------------------------------------------ oracles
def check_keys(store, out, where, strict: bool = True):
    """exactly one edge per unordered pair, stored under its canonical key ('lo→hi' of the two endpoint ids in
    string order).  strict: the record itself also lists its endpoints as src<=dst and carries its key as `id`
    (every record gel.py creates does).  Not strict (graphs restored from a snapshot file, whose records may list
    their endpoints in either order): only the KEY is judged - it has to be the canonical key of the unordered
    pair the record joins - and an `id` field, when present, has to agree with the key."""
    seen = {}
    for k, rec in (store or {}).get("edges", {}).items():
        rec = rec if isinstance(rec, dict) else {}
        s, d = str(rec.get("src")), str(rec.get("dst"))
        pair = (min(s, d), max(s, d))
        if strict:
            bad = not (s <= d) or k != "%s%s%s" % (s, ARROW, d) or rec.get("id") != k
        else:
            bad = k != "%s%s%s" % (pair[0], ARROW, pair[1]) or rec.get("id", k) != k
        if bad:
            out.append(("keys:noncanonical", "%s: edge stored under %r has src=%r dst=%r id=%r" % (where, k, s, d, rec.get("id"))))
        if pair in seen:
            out.append(("keys:duplicate-unordered-pair", "%s: edges %r and %r both join %r" % (where, seen[pair], k, pair)))
        seen[pair] = k


def ref_topk(c: Cfg, items):
    act = [(i, s) for (i, s) in as_tuples(items) if s >= c.thr]  # NaN >= thr is False
    act.sort(key=lambda t: (-t[1], t[0]))
    return act[: max(0, c.top_k)]   # an accepted top-k < 1 leaves no eligible item


def differs(a, b) -> bool:
    """content inequality that does not mistake a NaN weight for a change (NaN != NaN under ==)"""
    if a == b:
        return False
    if a is None or b is None:
        return True
    return dump(a) != dump(b)


class EngineRaised(Exception):
    pass


def engine(fn, *a, **kw):
    """call into the repo; an exception there under a validator-accepted config is an outcome to report"""
    try:
        return fn(*a, **kw)
    except HarnessError:
        raise
    except Exception as e:
        raise EngineRaised("%s: %s" % (type(e).__name__, str(e)[:200]))


def close(x: float, y: float) -> bool:
    return x == y or abs(x - y) <= EPS   # x == y covers equal infinities


def check_observe(c: Cfg, pre, post, items, metrics, exempt, out):
    top = ref_topk(c, items)
    ids = [i for i, _ in top]
    allowed = set()
    for i in range(len(ids)):
        for j in range(i + 1, len(ids)):
            a, b = (ids[i], ids[j]) if ids[i] <= ids[j] else (ids[j], ids[i])
            allowed.add("%s%s%s" % (a, ARROW, b))
    pe, qe = pre["edges"], post["edges"]
    changed = [k for k in sorted(set(pe) | set(qe)) if differs(pe.get(k), qe.get(k))]
    n_inc = 0
    cap = max(0, c.pair_cap)
    for k in changed:
        if k not in qe:
            out.append(("observe:edge-removed", "observe(%s) removed edge %s" % (json.dumps(items), k)))
            continue
        if k not in allowed:
            out.append(("observe:update-outside-topk-or-threshold",
                        "observe(%s) top_k=%d thr=%s changed edge %s; eligible ids %s" % (json.dumps(items), c.top_k, c.thr, k, ids)))
        w = wt(qe[k])
        if not c.inb(w) or w != w:
            out.append(("observe:weight-outside-clamp",
                        "observe(%s) wrote weight %r on %s, clamp bounds [%s,%s]" % (json.dumps(items), w, k, c.lo, c.hi)))
        c0 = int(((pe.get(k) or {}).get("attrs") or {}).get("coact", 0) or 0)
        c1 = int((qe[k].get("attrs") or {}).get("coact", 0) or 0)
        n_inc += max(0, c1 - c0)
        exempt.discard(k)
    if len(changed) > cap or n_inc > cap:
        out.append(("observe:more-updates-than-pair-cap",
                    "observe(%s) pair_cap=%d but %d edges changed / %d co-activation increments" % (json.dumps(items), c.pair_cap, len(changed), n_inc)))
    pu = metrics.get("pairs_updated")
    if isinstance(pu, int) and pu > cap:
        out.append(("observe:pairs_updated-metric-exceeds-cap", "pairs_updated=%d > pair_cap=%d" % (pu, c.pair_cap)))
    if isinstance(pu, int) and len(set(ids)) == len(ids) and pu != len(changed):
        out.append(("observe:pairs_updated-metric-mismatch",
                    "observe(%s): metrics say pairs_updated=%d, %d edges actually changed" % (json.dumps(items), pu, len(changed))))
    # documented behaviour (docs/m11: A = {i | s_i >= theta}, pairs among the strongest items): when neither the
    # pair cap binds nor ids repeat, every pair of eligible items is updated
    if len(set(ids)) == len(ids) and len(allowed) <= c.pair_cap:
        missing = sorted(allowed - set(changed))
        if missing:
            out.append(("observe:eligible-pair-not-updated",
                        "observe(%s) top_k=%d thr=%s pair_cap=%d left eligible pair(s) %s untouched" % (
                            json.dumps(items), c.top_k, c.thr, c.pair_cap, missing)))
    return len(changed), len(top)


def check_tick(c: Cfg, pre, post, dt, metrics, exempt, out):
    # the half-life rule has a meaning only for an accepted half-life > 0 (0 / negative / NaN: the decay amount
    # and the floor sweep are not judged, the invariants below still are)
    defined = c.decay_defined
    f = 0.5 ** (float(dt) / c.H) if defined else 1.0
    exact = defined and (float(dt) / c.H) == int(float(dt) / c.H)
    floor_ok = defined and c.floor_defined
    pe, qe = pre["edges"], post["edges"]
    n_removed = n_decayed = 0
    for k in sorted(qe):
        if k not in pe:
            out.append(("tick:edge-appeared", "tick(%d) created edge %s" % (dt, k)))
    for k in sorted(pe):
        w = wt(pe[k])
        d = w * f
        cl = min(max(d, c.lo), c.hi)  # a re-clamping implementation is also correct
        pre_ok = c.inb(w) and k not in exempt
        below_d = abs(d) < c.floor
        below_c = abs(cl) < c.floor
        tie = (not exact) and abs(abs(d) - c.floor) < EPS
        if k in qe:
            w2 = wt(qe[k])
            if w2 != w:
                n_decayed += 1
            if abs(w2) > abs(w) + 1e-12:   # "a tick never increases a weight's magnitude" - also not by clamping a
                # promotion-written weight that lies between 0 and a positive clamp_min up to the bound
                out.append(("tick:magnitude-increased", "tick(%d) H=%s took %s from %r to %r" % (dt, c.H, k, w, w2)))
            if pre_ok and not c.inb(w2):
                if c.lo > 0 and w2 < c.lo:
                    out.append(("tick:below-positive-clamp_min",
                                "tick(%d) half_life=%s floor=%s took %s from %r to %r < clamp_min=%s (config accepted by validate_config)" % (
                                    dt, c.H, c.floor, k, w, w2, c.lo)))
                else:
                    out.append(("tick:weight-outside-clamp", "tick(%d) took %s from %r to %r outside [%s,%s]" % (dt, k, w, w2, c.lo, c.hi)))
            if defined and w == w and not close(w2, d) and not close(w2, cl):
                out.append(("tick:decay-amount", "tick(%d) H=%s: %s %r -> %r, half-life rule gives %r" % (dt, c.H, k, w, w2, d)))
            if floor_ok and below_d and below_c and not tie:
                out.append(("tick:kept-edge-below-floor", "tick(%d) H=%s floor=%s kept %s with |%r*%r| < floor" % (dt, c.H, c.floor, k, w, f)))
        else:
            n_removed += 1
            exempt.discard(k)
            if floor_ok and w == w and (not below_d) and (not below_c) and not tie:
                out.append(("tick:removed-edge-not-below-floor",
                            "tick(%d) H=%s floor=%s removed %s although |%r*%r|=%r >= floor" % (dt, c.H, c.floor, k, w, f, abs(d))))
    return n_removed, n_decayed


def check_annotate_only(kind, pre, post, out):
    """merge / split passes: nodes and edges untouched, only meta[<kind>s] grows by appending."""
    lst = kind + "s"
    if differs(post["nodes"], pre["nodes"]) or differs(post["edges"], pre["edges"]):
        out.append(("%s:mutates-graph" % kind, "%s pass changed nodes/edges" % kind))
    pm, qm = dict(pre["meta"]), dict(post["meta"])
    a, b = pm.pop(lst, []), qm.pop(lst, [])
    if differs(b[: len(a)], a):
        out.append(("%s:rewrites-annotations" % kind, "%s pass rewrote earlier meta.%s entries" % (kind, lst)))
    if differs(pm, qm):
        out.append(("%s:mutates-meta" % kind, "%s pass changed meta keys other than %s: %s -> %s" % (kind, lst, dump(pm), dump(qm))))
    return len(b) - len(a)


def check_promote(c: Cfg, pre, post, exempt, out):
    concepts = {n for n, r in post["nodes"].items()
                if ((r or {}).get("attrs") or {}).get("kind") == "concept" or str(n).startswith("c::")}
    for n, r in pre["nodes"].items():
        if post["nodes"].get(n) != r:
            out.append(("promote:existing-node-modified", "promotion changed/removed node %s" % n))
    for n in post["nodes"]:
        if n not in pre["nodes"] and n not in concepts:
            out.append(("promote:non-concept-node-added", "promotion added node %s that is not a concept node" % n))
    pe, qe = pre["edges"], post["edges"]
    n_att = 0
    for k in sorted(set(pe) | set(qe)):
        if not differs(pe.get(k), qe.get(k)):
            continue
        if k not in qe:
            out.append(("promote:edge-removed", "promotion removed edge %s" % k))
            continue
        r = qe[k]
        if r.get("src") not in concepts and r.get("dst") not in concepts:
            out.append(("promote:non-concept-edge-modified", "promotion changed edge %s which joins no concept node" % k))
        w = wt(r)
        # documented rule: the configured attach weight, clamped to [-1, 1]
        if not (-1.0 - 1e-12 <= w <= 1.0 + 1e-12) or not close(w, c.attach_eff):
            out.append(("promote:attach-weight", "promotion wrote weight %r on %s, configured attach_weight %r" % (w, k, c.attach)))
        exempt.add(k)
        n_att += 1
    for lst in ("merges", "splits"):
        if differs(pre["meta"].get(lst), post["meta"].get(lst)):
            out.append(("promote:rewrites-annotations", "promotion changed meta.%s" % lst))
    return n_att


def check_restored(c: Cfg, pre, post, exempt, out, how):
    """a graph that crossed the disk boundary (snapshot written / snapshot file loaded): the bounds invariant is
    preserved - when every (non promotion-written) weight was inside the clamp interval before, every restored one
    is (the snapshot's own rounding to 6 decimals and its [-1,1] clamp cannot leave an interval whose finite bounds
    have <=6 decimals).  What else the restore keeps (weights, nodes, annotations) is not part of this property."""
    pre_ok = all(c.inb(wt(r)) for k, r in pre["edges"].items() if k not in exempt)
    nbad = 0
    if pre_ok:
        for k in sorted(post["edges"]):
            w = wt(post["edges"][k])
            if k not in exempt and not c.inb(w):
                nbad += 1
                out.append(("snapshot:weight-outside-clamp",
                            "%s left %s with weight %r outside [%s,%s]" % (how, k, w, c.lo, c.hi)))
    return nbad


# ------------------------------------------------------------------ the disk boundary (leg F)
# state.graph does not live in one process for ever: apply writes it into the agent's snapshot file every turn and the
# orchestrator's boot hook restores it with load_latest_snapshot.  The loader is documented as tolerant: the GEL
# section may sit under `gel` or (legacy) `graph`, its edges may be a dict keyed by any id or a list of
# {src,dst,rel,weight} records, and nothing says in which order a record lists its two endpoints.
DISK_CONTAINERS = ["dict:record-order-key", "dict:canonical-key", "dict:legacy-id", "list"]
DISK_ORDERS = ["sorted", "reversed", "alternating"]
DISK_SECTIONS = ["gel", "graph"]
DISK_SHAPES = [(co, o, se) for co in DISK_CONTAINERS for o in DISK_ORDERS for se in DISK_SECTIONS]


def foreign_payload(base: dict, shape):
    """the snapshot the engine itself wrote (base), with the SAME GEL content presented in another on-disk shape"""
    container, order, section = shape
    payload = json.loads(json.dumps(base))
    gel_in = payload.get("gel")
    if not isinstance(gel_in, dict) or not isinstance(gel_in.get("edges"), dict):
        raise EngineRaised("write_snapshot produced no gel.edges mapping: %s" % json.dumps(gel_in)[:160])
    recs = []
    for n, k in enumerate(sorted(gel_in["edges"])):
        rec = gel_in["edges"][k]
        r = {f: rec.get(f) for f in ("src", "dst", "rel", "weight", "updated_at", "attrs")}
        lo, hi = sorted([str(rec.get("src")), str(rec.get("dst"))])
        flip = order == "reversed" or (order == "alternating" and n % 2 == 0)
        r["src"], r["dst"] = (hi, lo) if flip else (lo, hi)
        recs.append(r)
    if container == "list":
        edges = recs
    else:
        edges = {}
        for r in recs:
            if container == "dict:record-order-key":
                k = "%s%s%s" % (r["src"], ARROW, r["dst"])
            elif container == "dict:canonical-key":
                k = "%s%s%s" % (min(r["src"], r["dst"]), ARROW, max(r["src"], r["dst"]))
            elif container == "dict:legacy-id":
                k = "%s__%s__%s" % (r["src"], r["dst"], r["rel"])
            else:
                raise HarnessError("unknown container %r" % (container,))
            edges[k] = dict(r, id=k)
    gel_out = dict(gel_in, edges=edges)
    if section == "graph":
        payload.pop("gel", None)
        payload["graph"] = gel_out
    elif section == "gel":
        payload["gel"] = gel_out
    else:
        raise HarnessError("unknown section %r" % (section,))
    return payload, sum(1 for r in recs if r["src"] > r["dst"])


class Disk:
    """one scratch snapshot directory and a ctx that points the engine's snapshot writer / loader at it"""

    def __init__(self, c: Cfg, root: str):
        from clematis.engine import snapshot as _snap
        self.snap = _snap
        self.dir = root
        os.makedirs(root, exist_ok=True)
        full = dict(c.full)
        full["t4"] = dict(full.get("t4") or {}, snapshot_dir=root)
        self.ctx = types.SimpleNamespace(cfg=full, config=full, agent_id="A", turn_id=TURN)
        self.path = os.path.join(root, "state_A.json")

    def _clear(self):
        for n in os.listdir(self.dir):
            os.unlink(os.path.join(self.dir, n))

    def write(self, store_json: str):
        """the engine writes the agent's snapshot of this graph; returns the path it reports"""
        self._clear()
        return engine(self.snap.write_snapshot, self.ctx, mk_state(store_json), "1", 0, [])

    def written_payload(self, store_json: str):
        """the JSON body of the snapshot the engine writes for this graph (None: not a single JSON object - the
        envelope for the foreign shapes is then missing, which is the snapshot format's business, not C18's)"""
        path = self.write(store_json)
        try:
            with open(path, "r", encoding="utf-8") as f:
                body = json.load(f)
            return body if isinstance(body, dict) else None
        except Exception:
            return None

    def load(self):
        """a fresh process state restores from the snapshot directory (what the boot hook does)"""
        fresh = types.SimpleNamespace()
        engine(self.snap.load_latest_snapshot, self.ctx, fresh)
        return getattr(fresh, "graph", None)

    def roundtrip(self, store_json: str):
        self.write(store_json)
        return self.load()

    def load_foreign(self, payload: dict):
        self._clear()
        with open(self.path, "w", encoding="utf-8") as f:
            json.dump(payload, f)
        return self.load()


def disk_roots(c: Cfg, disk: Disk, st: Stats = None, shapes=None):
    """the initial graph G4 restored from a snapshot file in every on-disk shape.  Yields
    (shape, violations, store_json | None)."""
    s0 = initial_store("G4", c)
    if s0 is None:
        return
    pre = norm_store(s0)
    try:
        base = disk.written_payload(dump(s0))
    except EngineRaised as e:
        yield None, [("persist:raises", "write_snapshot of the initial graph under a validator-accepted config raised %s" % e)], None
        return
    if base is None:
        if st is not None:
            st.add("disk_envelope_unreadable")
        return
    for shape in (shapes if shapes is not None else DISK_SHAPES):
        out = []
        try:
            payload, nflip = foreign_payload(base, shape)
            g = disk.load_foreign(payload)
        except EngineRaised as e:
            if st is not None:
                st.add("transitions")
                st.add("validated")
            yield shape, [("load:raises", "load_latest_snapshot of a %s snapshot raised %s" % ("/".join(shape), e))], None
            continue
        if st is not None:
            st.add("transitions")
            st.add("validated")
            st.add("disk_loads")
        post = norm_store(g)
        how = "load of a snapshot with %s edges, %s endpoints, section `%s`" % shape
        check_restored(c, pre, post, set(), out, how)
        check_keys(post, out, "after " + how, strict=False)
        if st is not None:
            st.distinct("outcomes", ["load", min(len(post["edges"]), 4), nflip > 0] + [v[0] for v in out[:1]])
            if post["edges"] and nflip:
                st.add("disk_loads_restoring_flipped_records")
        yield shape, out, dump(post)


def bfs_disk(c: Cfg, depth: int, ops, st: Stats, disk: Disk):
    """leg F: histories over ops + persist from {absent} + {G4 as restored from every on-disk shape}"""
    devs = _jsonable_devs(c.devs)
    seen = set()
    frontier = []

    def root(shape, sj):
        key = h64([sj, []])
        if key in seen:
            return
        seen.add(key)
        st.distinct("states", [devs, sj, []])
        frontier.append(({"kind": "disk", "devs": devs, "shape": list(shape) if shape else None}, [], sj, frozenset()))

    root(None, "null")
    for shape, viol, sj in disk_roots(c, disk, st):
        case = {"kind": "disk", "devs": devs, "shape": list(shape) if shape else None, "history": []}
        for sig, what in viol:
            st.violation(sig, what, case)
        if sj is not None:
            root(shape, sj)
    st.notes["disk_distinct_restored_graphs_max"] = max(st.notes.get("disk_distinct_restored_graphs_max", 0), len(frontier) - 1)
    for d in range(depth):
        nxt = []
        for base_case, hist, sj, ex in frontier:
            for op in ops:
                viol, nj, nex, oc, nontrivial = step(c, sj, set(ex), op, st, True, disk, False)
                h2 = hist + [op]
                for sig, what in viol:
                    st.violation(sig, what, dict(base_case, history=h2))
                st.distinct("outcomes", list(oc) + ([v[0] for v in viol[:1]]))
                if nontrivial:
                    st.distinct("nontrivial", [devs, "disk", sj, sorted(ex), op])
                key = h64([nj, sorted(nex)])
                if key not in seen:
                    seen.add(key)
                    st.distinct("states", [devs, nj, sorted(nex)])
                    nxt.append((base_case, h2, nj, frozenset(nex)))
        frontier = nxt
        if not frontier:
            break
    return len(seen)


def _disk_worker(chunk, st: Stats, scratch):
    ops = ops_alphabet(False) + [["persist"]]
    root = os.path.join(scratch, "disk-%d" % os.getpid())
    for devs, depth in chunk:
        c = Cfg(devs)
        if not c.accepted:
            raise HarnessError("rejected config reached the worker")
        n = bfs_disk(c, depth, ops, st, Disk(c, root))
        st.notes["disk_max_states_per_config"] = max(st.notes.get("disk_max_states_per_config", 0), n)
        st.notes["disk_depth_bound"] = max(st.notes.get("disk_depth_bound", 0), depth)
        if devs == {"mode": "proportional"}:
            st.sample({"kind": "disk", "devs": _jsonable_devs(devs), "shape": ["list", "reversed", "gel"],
                       "history": [ops[1], ["persist"], ["tick", 1]]})


# ------------------------------------------------------------------ executing one operation on the real code
def run_pass(ctx, c: Cfg, state, kind, promos_out=None):
    """the maintenance passes exactly as orchestrator/core.py strings them together"""
    if kind == "merge":
        ms = gel.merge_candidates(ctx, state)
        for m in ms[: c.cap_m]:
            gel.apply_merge(ctx, state, m)
        return len(ms)
    if kind == "split":
        ss = gel.split_candidates(ctx, state)
        for s in ss[: c.cap_s]:
            gel.apply_split(ctx, state, s)
        return len(ss)
    if kind == "promote":
        clusters = gel.merge_candidates(ctx, state)
        promos = gel.promote_clusters(ctx, state, clusters)
        for p in promos[: c.cap_p]:
            gel.apply_promotion(ctx, state, p)
        if promos_out is not None:
            promos_out.extend(promos[: c.cap_p])
        return len(promos)
    raise HarnessError("unknown pass %r" % kind)


def step(c: Cfg, store_json: str, exempt: set, op, st: Stats = None, all_perms: bool = True, disk=None, strict: bool = True):
    """Execute one operation from the state encoded by store_json on fresh objects.
    Returns (violations, next_store_json, next_exempt, outcome_class, nontrivial).  An exception raised by the
    GEL function itself is a reported outcome (<op>:raises; the state is not advanced).  disk: the Disk the
    `persist` operation writes to / restores from; strict: see check_keys."""
    try:
        return _step(c, store_json, exempt, op, st, all_perms, disk, strict)
    except EngineRaised as e:
        if st is not None:
            st.add("transitions")
            st.add("validated")
        what = "%s under a validator-accepted config raised %s" % (json.dumps(op), e)
        return [("%s:raises" % op[0], what)], store_json, set(exempt), (op[0], "raises"), False


def _step(c: Cfg, store_json: str, exempt: set, op, st: Stats = None, all_perms: bool = True, disk=None, strict: bool = True):
    out = []
    exempt = set(exempt)
    pre = norm_store(json.loads(store_json))
    kind = op[0]
    state = mk_state(store_json)
    if kind == "observe":
        items = op[1]
        perms = distinct_perms(items) if all_perms else [items]
        first = None
        for pi, perm in enumerate(perms):
            s = mk_state(store_json)
            m = engine(gel.observe_retrieval, c.ctx, s, as_engine_items(perm), turn=TURN, agent="A")
            if st is not None:
                st.add("transitions")
            post = norm_store(store_of(s), copy=False)
            ex = set(exempt)
            sub = []
            nchg, ntop = check_observe(c, pre, post, perm, m, ex, sub)
            check_keys(post, sub, "after observe", strict)
            if st is not None:
                st.add("validated")
            out.extend(sub)
            obs = (post, m.get("k_in"), m.get("k_used"), m.get("pairs_updated"))
            if first is None:
                first = (obs, perm, post, ex, nchg, ntop)
            elif obs != first[0] and differs(list(obs), list(first[0])):
                out.append(("observe:order-sensitive",
                            "observe(%s) and observe(%s) from the same state give different graphs/metrics" % (json.dumps(first[1]), json.dumps(perm))))
        _, _, post, exempt, nchg, ntop = first
        oc = ("observe", min(nchg, 3), min(ntop, 4), len(perms) > 1)
        nontrivial = nchg > 0 and len(perms) > 1
    elif kind == "tick":
        dt = op[1]
        m = engine(gel.tick, c.ctx, state, decay_dt=dt, turn=TURN, agent="A")
        if st is not None:
            st.add("transitions")
            st.add("validated")
        post = norm_store(store_of(state), copy=False)
        nrem, ndec = check_tick(c, pre, post, dt, m, exempt, out)
        check_keys(post, out, "after tick", strict)
        oc = ("tick", min(nrem, 2), min(ndec, 2))
        nontrivial = (nrem + ndec) > 0
    elif kind in ("merge", "split"):
        ncand = engine(run_pass, c.ctx, c, state, kind)
        if st is not None:
            st.add("transitions")
            st.add("validated")
        post = norm_store(store_of(state), copy=False)
        napp = check_annotate_only(kind, pre, post, out)
        check_keys(post, out, "after " + kind, strict)
        oc = (kind, min(napp, 2))
        nontrivial = napp > 0
        if st is not None and napp > 0:
            st.add(kind + "_applied")
    elif kind == "promote":
        promos = []
        engine(run_pass, c.ctx, c, state, "promote", promos)
        if st is not None:
            st.add("transitions")
            st.add("validated")
        post = norm_store(store_of(state))
        natt = check_promote(c, pre, post, exempt, out)
        check_keys(post, out, "after promote", strict)
        # idempotence: applying the same promotions again changes nothing
        for p in promos:
            engine(gel.apply_promotion, c.ctx, state, json.loads(json.dumps(p)))
        if st is not None:
            st.add("transitions")
            st.add("validated")
        again = norm_store(store_of(state))
        if dump(again) != dump(post):
            out.append(("promote:not-idempotent", "applying promotions %s a second time changed the graph" % json.dumps(promos)))
        oc = ("promote", min(natt, 2))
        nontrivial = natt > 0
        if st is not None and natt > 0:
            st.add("promote_applied")
    elif kind == "persist":
        if disk is None:
            raise HarnessError("persist operation without a Disk")
        g = disk.roundtrip(store_json)
        if st is not None:
            st.add("transitions")
            st.add("validated")
            st.add("persist_roundtrips")
        post = norm_store(g)
        nbad = check_restored(c, pre, post, exempt, out, "snapshot write + load")
        check_keys(post, out, "after snapshot write + load", strict)
        oc = ("persist", min(len(post["edges"]), 2), len(post["edges"]) == len(pre["edges"]))
        nontrivial = len(post["edges"]) > 0
    else:
        raise HarnessError("unknown op %r" % (op,))
    nxt = dump(post) if (store_json != "null" or dump(post) != dump(norm_store(None))) else "null"
    return out, nxt, exempt, oc, nontrivial


SYN_CLUSTER = {"type": "merge_candidate", "nodes": ["b", "a", "c"], "size": 3, "avg_w": 0.5, "diameter": 1, "signature": "a|b|c"}
SYN_SPLIT = {"type": "split_candidate", "original": ["a", "b", "c", "d"], "parts": [["a", "b"], ["c", "d"]],
             "removed_edges": 1, "orig_edges": 3, "signature": "a|b|c|d"}
SYN_PROMO = {"concept_id": "c::a", "label": "a", "members": ["a", "b"], "attach_weight": 0.5}


def gate_off_ops(c: Cfg, ops):
    """every operation (plus direct apply_* calls with hand-made candidates) against a closed gate"""
    calls = []
    for op in ops:
        if op[0] == "observe":
            calls.append((op, lambda ctx, s, L=op[1]: gel.observe_retrieval(ctx, s, as_tuples(L), turn=TURN, agent="A")))
        elif op[0] == "tick":
            calls.append((op, lambda ctx, s, dt=op[1]: gel.tick(ctx, s, decay_dt=dt, turn=TURN, agent="A")))
        else:
            calls.append((op, lambda ctx, s, k=op[0]: run_pass(ctx, c, s, k)))
    calls.append((["apply_merge*"], lambda ctx, s: gel.apply_merge(ctx, s, dict(SYN_CLUSTER))))
    calls.append((["apply_split*"], lambda ctx, s: gel.apply_split(ctx, s, dict(SYN_SPLIT))))
    calls.append((["promote_clusters*"], lambda ctx, s: [gel.apply_promotion(ctx, s, p) for p in
                                                         (gel.promote_clusters(ctx, s, [dict(SYN_CLUSTER)]) or [dict(SYN_PROMO)])]))
    calls.append((["apply_promotion*"], lambda ctx, s: gel.apply_promotion(ctx, s, dict(SYN_PROMO))))
    return calls


def off_contexts(c: Cfg):
    full = c.full_off
    return [("ns(cfg,config)", c.ctx_off), ("dict", full), ("ns(cfg)", types.SimpleNamespace(cfg=full)),
            ("ns(config)", types.SimpleNamespace(config=full))]


def check_gate_off(c: Cfg, store_json: str, ops, st: Stats = None, ctx_shapes=None):
    out = []
    shapes = ctx_shapes if ctx_shapes is not None else [("ns(cfg,config)", c.ctx_off)]
    state = None
    for shape, ctx in shapes:
        for op, fn in gate_off_ops(c, ops):
            if state is None:  # fresh objects at the start and after every detected modification
                state = mk_state(store_json)
                g0 = store_of(state)
                ref = json.loads(store_json)  # independent copy of the content
                attrs0 = sorted(vars(state))
            raised = None
            try:
                engine(fn, ctx, state)
            except EngineRaised as e:
                raised = str(e)
            if st is not None:
                st.add("transitions")
                st.add("validated")
                st.add("gate_off_calls")
            if raised is not None:
                out.append(("gate-off:%s-raises" % op[0].rstrip("*"),
                            "graph.enabled=false (%s ctx): %s raised %s" % (shape, json.dumps(op), raised)))
                state = None
                continue
            g1 = store_of(state)
            if g1 is not g0 or sorted(vars(state)) != attrs0 or differs(g1, ref) or (g1 is not None and list(g1) != list(ref)):
                out.append(("gate-off:%s-touches-graph" % op[0].rstrip("*"),
                            "graph.enabled=false (%s ctx): %s changed state.graph from %s to %s" % (shape, json.dumps(op), dump(ref), dump(g1))))
                state = None
    return out


# ------------------------------------------------------------------ leg B: history BFS
def bfs(c: Cfg, init: str, depth: int, ops, st: Stats, thorough: bool):
    if init not in inits_for(c):
        return 0, 0   # accepted clamp interval empty / NaN: no initial weight can satisfy the invariant
    s0 = initial_store(init, c)
    j0 = dump(s0) if s0 is not None else "null"
    if s0 is not None:
        sub = []
        check_keys(s0, sub, "initial")
        if sub or not all(c.inb(wt(r)) for r in s0["edges"].values()):
            raise HarnessError("initial graph outside the invariant: %s" % sub)
    devs = _jsonable_devs(c.devs)
    base_case = {"kind": "history", "devs": devs, "init": init}
    if s0 is not None:
        base_case["init_edges"] = {k: r["weight"] for k, r in s0["edges"].items()}  # informational
    seen = {h64([j0, []])}
    st.distinct("states", [devs, j0, []])
    frontier = [([], j0, frozenset())]
    reached = 0
    for d in range(depth + 1):
        nxt = []
        for hist, sj, ex in frontier:
            # gate off at every distinct state
            for sig, what in check_gate_off(c, sj, ops, st):
                st.violation(sig, what, {"kind": "gate_off", "devs": devs, "init": init, "history": hist})
            if d == depth:
                continue
            for op in ops:
                viol, nj, nex, oc, nontrivial = step(c, sj, set(ex), op, st)
                h2 = hist + [op]
                for sig, what in viol:
                    st.violation(sig, what, dict(base_case, history=h2))
                st.distinct("outcomes", list(oc) + ([v[0] for v in viol[:1]]))
                if nontrivial:
                    st.distinct("nontrivial", [devs, init, sj, sorted(ex), op])
                key = h64([nj, sorted(nex)])
                if key not in seen:
                    seen.add(key)
                    st.distinct("states", [devs, nj, sorted(nex)])
                    nxt.append((h2, nj, frozenset(nex)))
        reached = d
        frontier = nxt
        if not frontier:
            break
    return len(seen), reached


def _bfs_worker(chunk, st: Stats):
    for devs, init, depth, thorough in chunk:
        ops = ops_alphabet(thorough)
        c = Cfg(devs)
        if not c.accepted:
            raise HarnessError("rejected config reached the worker")
        n, reached = bfs(c, init, depth, ops, st, thorough)
        st.notes["max_states_per_config"] = max(st.notes.get("max_states_per_config", 0), n)
        st.notes["bfs_depth_reached"] = max(st.notes.get("bfs_depth_reached", 0), reached)
        if not devs and init == "G4" and depth <= 4:
            st.sample({"kind": "history", "devs": {}, "init": init, "history": [ops[1], ["tick", 1], ["promote"]]})


# ------------------------------------------------------------------ leg A: exhaustive single-step observe
ITEM_IDS = ["a", "b", "c"]
ITEM_SCORES = [NAN, 0.1, 0.2, 0.5, 0.9]


def multisets(max_len: int):
    combos = [[i, s] for i in ITEM_IDS for s in ITEM_SCORES]
    out = []
    for n in range(0, max_len + 1):
        for idx in itertools.combinations_with_replacement(range(len(combos)), n):
            out.append([combos[i] for i in idx])
    return out


def _observe_worker(chunk, st: Stats, max_len):
    ms_by_len = {n: multisets(n) for n in (max_len, max_len - 1)}
    for devs, init in chunk:
        ms = ms_by_len[max_len if len(devs) <= 1 else max_len - 1]
        c = Cfg(devs)
        s0 = initial_store(init, c)
        j0 = dump(s0) if s0 is not None else "null"
        jd = _jsonable_devs(devs)
        for L in ms:
            viol, nj, nex, oc, nontrivial = step(c, j0, set(), ["observe", L], st)
            for sig, what in viol:
                st.violation(sig, what, {"kind": "history", "devs": jd, "init": init, "history": [["observe", L]]})
            st.distinct("outcomes", list(oc) + ([v[0] for v in viol[:1]]))
            st.distinct("states", [jd, nj, []])
            if nontrivial:
                st.distinct("nontrivial", [jd, init, j0, [], ["observe", L]])
        st.add("observe_multisets", len(ms))
        if len(devs) == 1 and init == "G4":
            st.sample({"kind": "history", "devs": jd, "init": init, "history": [["observe", ms[len(ms) // 2]]]})


# ------------------------------------------------------------------ leg E: item representations
SHAPE_SCORES = [NAN, 0.0, 0.1, 0.2, 0.5, 0.9, 1.0]


def shaped_lists(max_len: int, mixed_len: int = 2):
    """every multiset of <=max_len (id, score) items, in every homogeneous representation, and for multisets of
    <=mixed_len items in every assignment of representations to the items"""
    combos = [[i, s] for i in ITEM_IDS for s in SHAPE_SCORES]
    out = [[]]
    for n in range(1, max_len + 1):
        for idx in itertools.combinations_with_replacement(range(len(combos)), n):
            base = [combos[i] for i in idx]
            if n <= mixed_len:
                assigns = itertools.product(SHAPES, repeat=n)
            else:
                assigns = [(sh,) * n for sh in SHAPES]
            seen = set()
            for a in assigns:
                L = [[b[0], b[1], sh] for b, sh in zip(base, a)]
                key = tuple(sorted(repr(x) for x in L))   # identical items: assignments that are permutations
                if key in seen:
                    continue
                seen.add(key)
                out.append(L)
    return out


def _shape_worker(chunk, st: Stats, max_len):
    by_len = {}
    for devs, init, n, mixed_len in chunk:
        if (n, mixed_len) not in by_len:
            by_len[(n, mixed_len)] = shaped_lists(n, mixed_len)
        lists = by_len[(n, mixed_len)]
        c = Cfg(devs)
        s0 = initial_store(init, c)
        j0 = dump(s0) if s0 is not None else "null"
        jd = _jsonable_devs(devs)
        for L in lists:
            viol, nj, nex, oc, nontrivial = step(c, j0, set(), ["observe", L], st)
            for sig, what in viol:
                st.violation(sig, what, {"kind": "history", "devs": jd, "init": init, "history": [["observe", L]]})
            mixed = len({x[2] for x in L}) > 1
            st.distinct("outcomes", list(oc) + ([v[0] for v in viol[:1]]))
            st.distinct("states", [jd, nj, []])
            if nontrivial:
                st.distinct("nontrivial", [jd, init, j0, [], ["observe", L]])
            # anti-vacuity of the decoy: lists in which an item's score and its decoy fall on different sides of
            # the threshold (a carrier read through the wrong field would change the eligible set)
            if any(x[2] in ("dict+", "obj+") and ((float(x[1]) >= c.thr) != (decoy(float(x[1])) >= c.thr)) for x in L):
                st.add("shape_lists_decoy_discriminates")
            if mixed:
                st.add("shape_lists_mixed")
        st.add("shape_lists", len(lists))
        if not devs and init == "absent":
            st.sample({"kind": "history", "devs": jd, "init": init,
                       "history": [["observe", [["a", 0.9, "obj+"], ["b", 0.0, "obj+"], ["c", 0.5, "slots"]][:max(2, n)]]]})


# ------------------------------------------------------------------ leg C: gate off, other ctx shapes / unvalidated "absent" gate
def _gate_worker(chunk, st: Stats, thorough):
    ops = ops_alphabet(thorough)
    for devs in chunk:
        c = Cfg(devs)
        jd = _jsonable_devs(devs)
        g4 = initial_store("G4", c)
        starts = ["null"] + ([dump(g4)] if g4 is not None else []) + [dump({"nodes": {}, "edges": {}}), dump({})]
        for sj in starts:
            for sig, what in check_gate_off(c, sj, ops, st, off_contexts(c)):
                st.violation(sig, what, {"kind": "gate_off_shapes", "devs": jd, "store": json.loads(sj)})
            st.distinct("outcomes", ["gate_off", sj == "null"])
        if devs == {"mode": "proportional"}:
            st.sample({"kind": "gate_off_shapes", "devs": jd, "store": g4})
        if not devs:
            # gate absent == off (default OFF per docs): no graph key / empty graph block
            for label, root in (("no-graph-key", {}), ("empty-graph-block", {"graph": {}})):
                for sj in starts:
                    for sig, what in check_gate_off(c, sj, ops, st, [(label, root), (label + "-ns", types.SimpleNamespace(cfg=root, config=root))]):
                        st.violation(sig, what, {"kind": "gate_off_absent", "root": root, "store": json.loads(sj)})


# ------------------------------------------------------------------ leg D: through the orchestrator (cheap, best effort)
class _AttrDict(dict):
    def __getattr__(self, name):
        try:
            return self[name]
        except KeyError as e:
            raise AttributeError(name) from e

    def __setattr__(self, name, value):
        self[name] = value


def _to_attr(o):
    if isinstance(o, dict):
        return _AttrDict({k: _to_attr(v) for k, v in o.items()})
    if isinstance(o, list):
        return [_to_attr(v) for v in o]
    return o


def orchestrator_gate_off(run: Run):
    """One real turn with graph.enabled=false (sub-gates ON) over a state carrying a populated graph:
    state['graph'] must be the same object with the same content afterwards; enabled=true must change it
    (anti-vacuity: proves the turn reaches the GEL hooks)."""
    import contextlib
    import io
    import logging
    from clematis.engine.orchestrator import core
    from clematis.engine.stages import t1 as _t1
    from clematis.engine.stages.t2 import cache as _t2c

    res = {}
    old_env = os.environ.get("CLEMATIS_LOG_DIR")
    for enabled in (False, True):
        for nm, mod in (("_T1_CACHE", _t1), ("_T1_CACHE_CFG", _t1), ("_T2_CACHE", _t2c), ("_T2_CACHE_CFG", _t2c)):
            if hasattr(mod, nm):
                setattr(mod, nm, None)
        d = os.path.join(run.scratch, "orch-%s" % enabled)
        os.makedirs(os.path.join(d, "logs"), exist_ok=True)
        os.makedirs(os.path.join(d, "snaps"), exist_ok=True)
        os.environ["CLEMATIS_LOG_DIR"] = os.path.join(d, "logs")
        raw = {"graph": raw_graph_cfg({"half_life": 1, "alpha": 0.6}, enabled),
               "t1": {"decay": {"mode": "exp_floor", "rate": 0.6, "floor": 0.05}},
               "t4": {"snapshot_dir": os.path.join(d, "snaps")}}
        cfg = _to_attr(validate_config(raw))
        c = Cfg({"half_life": 1, "alpha": 0.6})
        g = initial_store("G4", c)
        before = dump(g)
        # a process that has already booted (the boot hook restores state.graph from the latest snapshot
        # whatever the gate says; that is snapshot restore, not GEL) and carries a populated graph
        state = {"version_etag": "0", "graph": g, "_boot_loaded": True}
        ctx = types.SimpleNamespace(turn_id="1", agent_id="A", now=None, now_ms=0, cfg=cfg, config=cfg)
        lvl = logging.root.manager.disable
        logging.disable(logging.CRITICAL)
        try:
            with contextlib.redirect_stderr(io.StringIO()), contextlib.redirect_stdout(io.StringIO()):
                core.Orchestrator().run_turn(ctx, state, "hello")
        finally:
            logging.disable(lvl)
        res[enabled] = (state.get("graph") is g, dump(state.get("graph")) == before,
                        os.path.exists(os.path.join(d, "logs", "gel.jsonl")))
    if old_env is not None:
        os.environ["CLEMATIS_LOG_DIR"] = old_env
    return res


# ------------------------------------------------------------------ run / replay
def run(run: Run) -> None:
    thorough = run.thorough
    depth = 4 if thorough else 3
    max_len = 4 if thorough else 3
    devs_all = all_devs(2)
    accepted, rejected, special_acc = [], 0, {}
    inits = {}
    for d in devs_all:
        c = Cfg(d)
        if not c.accepted:
            rejected += 1
            continue
        special = sorted("%s=%s" % (k, json.dumps(_jsonable_devs({k: v})[k])) for k, v in d.items()
                         if any(repr(v) == repr(e) for e in EDGE.get(k, [])))
        for sp in special:
            special_acc[sp] = special_acc.get(sp, 0) + 1
        if c.unreadable is not None:
            run.add("transitions")
            run.add("validated")
            run.violation("config:accepted-parameter-not-a-number",
                          "validate_config accepted %s but a normalised GEL parameter is not a number (%s)" % (
                              json.dumps(_jsonable_devs(d)), c.unreadable),
                          {"kind": "config", "devs": _jsonable_devs(d)})
            continue
        accepted.append(d)
        inits[len(accepted) - 1] = inits_for(c)
    run.notes["configs_enumerated"] = len(devs_all)
    run.notes["configs_accepted_by_validator"] = len(accepted)
    run.notes["configs_rejected_by_validator"] = rejected
    # special (validator-boundary) candidate values the validator let through, with the number of configs each
    run.notes["special_values_accepted"] = dict(sorted(special_acc.items()))
    run.notes["special_values_enumerated"] = sum(len(v) for v in EDGE.values())
    run.notes["observe_item_bound"] = max_len
    ops = ops_alphabet(False)
    run.notes["ops_per_state"] = ("%d (base list alphabet); %d (extended, configs with <=1 deviation)" % (
        len(ops), len(ops_alphabet(True)))) if thorough else len(ops)

    # harness determinism: the first execution twice
    c0 = Cfg({})
    j0 = dump(initial_store("G4", c0))
    r1 = step(c0, j0, set(), ops[1])
    r2 = step(c0, j0, set(), ops[1])
    if r1[1] != r2[1] or r1[0] != r2[0]:
        raise HarnessError("harness nondeterministic: same step, different result")

    import time as _time
    _t = _time.time()
    # leg B
    # quick: depth 3, base list alphabet.  thorough: depth 4; configs with <=1 deviation use the extended list
    # alphabet (incl. two 4-distinct-item lists = 24 orders each); the default config additionally to depth 5.
    bfs_items = [(d, init, depth, thorough and len(d) <= 1) for i, d in enumerate(accepted) for init in inits[i]]
    if thorough:
        bfs_items = [({}, init, 5, False) for init in INITS] + bfs_items
    run.pmap(_bfs_worker, bfs_items, chunks=len(bfs_items))
    run.notes["wall_leg_B_s"] = round(_time.time() - _t, 1)
    _t = _time.time()
    # leg A
    obs_devs = [(i, d) for i, d in enumerate(accepted) if set(d) <= OBSERVE_DIMS]
    run.notes["observe_leg_configs"] = len(obs_devs)
    obs_items = [(d, init) for i, d in obs_devs for init in inits[i]]
    run.pmap(_observe_worker, obs_items, extra=(max_len,), chunks=len(obs_items))
    run.notes["wall_leg_A_s"] = round(_time.time() - _t, 1)
    _t = _time.time()
    # leg E: item representations.  quick: <=2 items, observe-relevant configs with <=1 deviation, homogeneous
    # representations (default config: also every mixed assignment).  thorough: <=3 items (<=1 deviation), <=2 items
    # (2 deviations), mixed assignments for <=2 items under every config with <=1 deviation.
    n_e = 3 if thorough else 2
    shp_items = [(d, init, n_e if len(d) <= 1 else n_e - 1, 2 if ((thorough and len(d) <= 1) or not d) else 0)
                 for i, d in obs_devs if (thorough or len(d) <= 1) for init in inits[i]]
    run.notes["item_representations"] = list(SHAPES)
    run.notes["item_representation_scores"] = ["NaN" if x != x else x for x in SHAPE_SCORES]
    run.notes["item_representation_bound"] = n_e
    run.notes["item_representation_leg_configs"] = len({json.dumps(_jsonable_devs(d), sort_keys=True) for d, _, _, _ in shp_items})
    run.pmap(_shape_worker, shp_items, extra=(n_e,), chunks=len(shp_items))
    run.notes["wall_leg_E_s"] = round(_time.time() - _t, 1)
    _t = _time.time()
    # leg F: the disk boundary.  quick: default config depth 3, 1 deviation depth 2, 2 deviations depth 1 (every
    # restored graph + one operation).  thorough: default depth 4, 1 deviation depth 3, 2 deviations depth 2.
    dd = (4, 3, 2) if thorough else (3, 2, 1)
    disk_items = [(d, dd[len(d)]) for i, d in enumerate(accepted) if "G4" in inits[i]]
    run.notes["disk_shapes"] = len(DISK_SHAPES)
    run.notes["disk_leg_configs"] = len(disk_items)
    run.pmap(_disk_worker, disk_items, extra=(run.scratch,), chunks=len(disk_items))
    run.notes["wall_leg_F_s"] = round(_time.time() - _t, 1)
    _t = _time.time()
    # leg C
    run.pmap(_gate_worker, accepted, extra=(thorough,))
    run.notes["wall_leg_C_s"] = round(_time.time() - _t, 1)
    # leg D
    try:
        res = orchestrator_gate_off(run)
    except Exception as e:  # the orchestrator leg is best effort; the property is decided at gel level
        run.notes["orchestrator_leg"] = "skipped: %s: %s" % (type(e).__name__, str(e)[:200])
        run.assume("gate-off was decided on the gel functions only (orchestrator leg could not be stood up)")
    else:
        run.add("transitions", 2)
        run.add("validated", 2)
        same_obj, same_content, gel_log = res[False]
        run.notes["orchestrator_leg"] = {"off": list(res[False]), "on": list(res[True])}
        if not (same_obj and same_content) or gel_log:
            run.violation("gate-off:orchestrator-turn-touches-graph",
                          "run_turn with graph.enabled=false: same object=%s same content=%s gel.jsonl written=%s" % res[False],
                          {"kind": "orchestrator"})
        if res[True][1]:
            run.notes["orchestrator_leg_vacuous"] = True  # enabled turn did not change the graph either
        run.distinct("outcomes", ["orch", list(res[False]), list(res[True])])

    run.notes["bfs_depth_bound"] = "4 (all configs); 5 (default config)" if thorough else "3"
    run.rule = ("Configs: every <=2-deviation combination over %d dimensions whose value lists include, per dimension, the "
                "validator-boundary candidates (NaN, +-inf, 0, negative, out of range, empty/inverted clamp interval, unknown "
                "mode: %d special values); validate_config decides membership (rejected = outside the quantifier).  "
                "B: per validator-accepted config x initial graph {absent,G4}: BFS to depth %s "
                "over %s operations (observe lists with every distinct permutation, tick dt in {0,1,5}, merge/split/promote "
                "passes), merged by canonical JSON of state.graph + promotion-written edge set; every operation also with the "
                "gate closed at every state.  A: every multiset of <=%d items (<=1 deviation; one item fewer for 2-deviation "
                "configs) over {a,b,c}x{NaN,.1,.2,.5,.9} in every order from {absent,G4}.  E: every multiset of <=%d items (%s) over "
                "{a,b,c}x{NaN,0,.1,.2,.5,.9,1} with the items presented in every homogeneous representation of {%s} and, for <=2 "
                "items%s, every mixed assignment of representations ('+' = carrier with owner/text and the score-like fields %s set "
                "to the decoy 1-score), every distinct order, from {absent,G4}, same observe oracle on the (id, score) content.  "
                "F (disk boundary): G4 written by the engine's own snapshot writer and presented to load_latest_snapshot in every "
                "on-disk shape of {%s} edges x {%s} endpoint order of the records x section {%s} (%d shapes), each restored graph "
                "judged (canonical key per unordered pair, bounds preserved) and, with `absent`, taken as a root of a BFS to depth %s "
                "over the same operations + persist (write_snapshot then load_latest_snapshot into a fresh state).  "
                "C: closed gate x 4 ctx shapes x 4 stores. "
                "non-trivial = the step changed the graph (observe: and >1 order was run)" % (
                    len(DIMS), run.notes["special_values_enumerated"], run.notes["bfs_depth_bound"], run.notes["ops_per_state"], max_len,
                    n_e, "observe-relevant configs with <=1 deviation; one item fewer for 2-deviation configs" if thorough
                    else "observe-relevant configs with <=1 deviation", ", ".join(SHAPES),
                    " under configs with <=1 deviation" if thorough else " under the default config", "/".join(SCORE_ALIASES),
                    ", ".join(DISK_CONTAINERS), ", ".join(DISK_ORDERS), ", ".join(DISK_SECTIONS), len(DISK_SHAPES),
                    "%d (default config) / %d (1 deviation) / %d (2 deviations)" % dd))
    run.assume("item ids are plain strings without the key separator '→' (ids containing it can make two unordered pairs collide on one key; not in the alphabet)")
    run.assume("an item's score is the value of its `score` field / second tuple element; items are tuples, dicts with 'id' and "
               "'score', or objects with .id and .score (docstring: 'each item should carry (id, score)'); any further field of a "
               "carrier (owner, text, similarity, sim, weight, _score) is not the score.  Carriers WITHOUT a score field (similarity "
               "only), other id field names, list-shaped items and score=None are not in the alphabet (the statement is silent)")
    run.assume("legs A/B/C present items as (id, score) tuples; the representation only matters to the stateless item adapter, so "
               "leg E varies it on single observe steps from {absent, G4}, not inside histories")
    run.assume("leg F: a snapshot file's edge records carry src, dst, rel, weight (+ updated_at, attrs) with the weights of G4 (inside "
               "the clamp interval, <=6 decimals); records with a missing endpoint, two records for one unordered pair, ids "
               "containing '__' or '→', delta / compressed snapshot files and dict-shaped process states are not in the alphabet.  Of a "
               "restored graph only this property's invariants are judged (one edge per unordered pair under the canonical key of "
               "that pair - the order in which the RECORD lists src/dst is not judged there -, bounds preserved); what a restore "
               "keeps otherwise (weights, nodes, annotations) belongs to the snapshot properties.  The closed gate is not re-run "
               "on the leg-F states")
    run.assume("decay_dt >= 0 (tick is only ever called with 1 by the orchestrator)")
    run.assume("edges last written by a promotion pass are exempt from the update clamp until observed again (promotion clamps to [-1,1] by its own documented rule)")
    run.assume("the additive/proportional increment itself, and WHICH pairs survive a binding pair cap, are not part of the statement and are not checked (only: within clamp, <= cap, among the eligible items, order-insensitive)")
    run.assume("an accepted half-life <= 0 / NaN or NaN floor leaves the decay amount and the floor sweep without a meaning: those two "
               "clauses are skipped for such configs (bounds, no magnitude increase, keys, caps are still judged); infinite clamp "
               "bounds are bounds (a weight of +inf lies within [-1, +inf]); NaN never lies within any bounds")
    run.assume("special candidate values are floats/ints as YAML would deliver them (.nan, .inf); string spellings are not enumerated")
    run.assume("where clamp_min>0 makes 're-clamp then floor' and 'floor then re-clamp' disagree, either removal decision is accepted")


def _replay_history(case):
    devs = _devs_from_json(case["devs"])
    c = Cfg(devs)
    if not c.accepted:
        return []  # the validator rejects this setting (now): it is outside the property's quantifier, nothing to judge
    if c.unreadable is not None:
        return [("config:accepted-parameter-not-a-number", c.unreadable)]
    s0 = initial_store(case["init"], c)
    # plain function calls on ONE live state object (no JSON round trip between steps) ...
    state = types.SimpleNamespace()
    if s0 is not None:
        state.graph = s0
    out = []
    ex = set()
    for op in case["history"]:
        sj = dump(store_of(state)) if store_of(state) is not None else "null"
        viol, nj, ex, oc, _ = step(c, sj, ex, op)
        out.extend(viol)
        if tuple(oc[1:]) == ("raises",):
            return out   # the engine raised on this operation: reported, history ends here
        # ... advance the live object with the real call and cross-check the explorer's successor
        if op[0] == "observe":
            gel.observe_retrieval(c.ctx, state, as_engine_items(op[1]), turn=TURN, agent="A")
        elif op[0] == "tick":
            gel.tick(c.ctx, state, decay_dt=op[1], turn=TURN, agent="A")
        else:
            run_pass(c.ctx, c, state, op[0])
        live = dump(norm_store(store_of(state)))
        if live != dump(norm_store(json.loads(nj))):
            raise HarnessError("replay diverges from explorer successor at %s" % json.dumps(op))
    ops = ops_alphabet(False)
    out.extend(check_gate_off(c, dump(store_of(state)) if store_of(state) is not None else "null", ops))
    return out


def _replay_disk(case):
    import shutil
    import tempfile
    c = Cfg(_devs_from_json(case["devs"]))
    if not c.accepted:
        return []
    if c.unreadable is not None:
        return [("config:accepted-parameter-not-a-number", c.unreadable)]
    d = tempfile.mkdtemp(prefix="c18r", dir="/dev/shm" if os.path.isdir("/dev/shm") else None)
    try:
        disk = Disk(c, os.path.join(d, "snaps"))
        out = []
        sj = "null"
        if case.get("shape"):
            sj = None
            for shape, viol, j in disk_roots(c, disk, None, [tuple(case["shape"])]):
                out.extend(viol)
                sj = j
            if sj is None:
                return out
        ex = set()
        for op in case.get("history") or []:
            viol, sj, ex, oc, _ = step(c, sj, ex, op, None, True, disk, False)
            out.extend(viol)
            if tuple(oc[1:]) == ("raises",):
                break
        return out
    finally:
        shutil.rmtree(d, ignore_errors=True)


def replay(case):
    kind = case.get("kind")
    if kind in ("history", "gate_off"):
        res = _replay_history(case)
    elif kind == "disk":
        res = _replay_disk(case)
    elif kind == "gate_off_shapes":
        c = Cfg(_devs_from_json(case["devs"]))
        res = check_gate_off(c, dump(case["store"]), ops_alphabet(False), None, off_contexts(c))
    elif kind == "gate_off_absent":
        c = Cfg({})
        root = case["root"]
        res = check_gate_off(c, dump(case["store"]), ops_alphabet(False), None,
                             [("dict", root), ("ns", types.SimpleNamespace(cfg=root, config=root))])
    elif kind == "config":
        c = Cfg(_devs_from_json(case["devs"]))
        res = [("config:accepted-parameter-not-a-number", c.unreadable)] if (c.accepted and c.unreadable is not None) else []
    elif kind == "orchestrator":
        class _R:  # minimal stand-in for Run
            scratch = None
        import shutil
        import tempfile
        r = _R()
        r.scratch = tempfile.mkdtemp(prefix="c18r", dir="/dev/shm" if os.path.isdir("/dev/shm") else None)
        try:
            o = orchestrator_gate_off(r)
        finally:
            shutil.rmtree(r.scratch, ignore_errors=True)
        res = [] if (o[False][0] and o[False][1] and not o[False][2]) else [("gate-off:orchestrator-turn-touches-graph", str(o))]
    else:
        raise HarnessError("unknown case kind %r" % kind)
    seen = set()
    uniq = []
    for sig, what in res:
        if sig not in seen:
            seen.add(sig)
            uniq.append((sig, what))
    return uniq
