"""C01 — turn execution is reproducible byte for byte.

Engine E5 (environment answers): every scenario (world x config x turn sequence) is executed under every
combination of
    string-hash seed   (one worker PROCESS per seed, PYTHONHASHSEED set in its environment)
  x clock profile      (perf_counter / time.time answers: real, frozen, +1us per call, +3ms per call, running backwards)
  x wall date          (datetime.now answers: real, 2020-01-01, 2035-01-01)
  x process warmth     (first run in a fresh process with pristine stage caches / re-run in the same process
                        after every other scenario ran, nothing reset)
and one digest per (scenario, environment) -- utterances, bytes of the canonical streams t1/t2/t4/apply/turn/health
(scheduler.jsonl with consumed.ms masked), snapshot bodies, with the scratch root replaced -- must be equal across the
whole product.  The logical clock (ctx.now / ctx.now_ms) is part of the scenario.

A difference is reported per (environment dimension, stream, JSON field path); known_findings.json lists field paths,
so any other differing field is still a new violation (this is the "mask" of DESIGN section 1).
"""
from __future__ import annotations

import datetime as _real_dt
import hashlib
import itertools
import json
import os
import subprocess
import sys
import time as _real_time

_REAL_DATETIME_CLS = _real_dt.datetime

CANON = ("t1.jsonl", "t2.jsonl", "t4.jsonl", "apply.jsonl", "turn.jsonl", "health.jsonl", "scheduler.jsonl")
HASH_SEEDS_QUICK = ["0", "1", "7"]
HASH_SEEDS_THOROUGH = ["0", "1", "2", "3", "7"]
CLOCKS_QUICK = ["real", "plus3ms"]
CLOCKS_THOROUGH = ["real", "frozen", "plus1us", "plus3ms", "backwards"]
DATES_QUICK = ["real", "2020"]
DATES_THOROUGH = ["real", "2020", "2035"]
# process time zone (POSIX TZ strings, no tz database needed); "real" = whatever the check runs under
TZS_QUICK = ["JST-9"]
TZS_THOROUGH = ["JST-9", "EST5EDT", "UTC0"]


# ------------------------------------------------------------------ environment shims
class ClockProxy:
    """Scripted answers for time.time / perf_counter / monotonic / sleep."""

    def __init__(self, profile):
        self.profile = profile
        self.t = 5000.0
        self.calls = 0

    def _tick(self):
        self.calls += 1
        p = self.profile
        if p == "frozen":
            return self.t
        if p == "plus1us":
            self.t += 1e-6
        elif p == "plus3ms":
            self.t += 3e-3
        elif p == "backwards":
            self.t -= 1e-3
        return self.t

    def perf_counter(self):
        return self._tick()

    def time(self):
        return self._tick() * 4000.0 + 1.2e9   # scaled: wall-clock answers spread over hours / days between calls

    def monotonic(self):
        return self._tick()

    def sleep(self, s):
        return None

    def __getattr__(self, name):
        return getattr(_real_time, name)


def make_dt_proxy(date):
    year = {"2020": 2020, "2035": 2035}[date]

    class _DT(_REAL_DATETIME_CLS):
        @classmethod
        def now(cls, tz=None):
            return _REAL_DATETIME_CLS(year, 1, 1, 12, 0, 0, tzinfo=tz)

        @classmethod
        def utcnow(cls):
            return _REAL_DATETIME_CLS(year, 1, 1, 12, 0, 0)

        @classmethod
        def today(cls):
            return _REAL_DATETIME_CLS(year, 1, 1, 12, 0, 0)

    class _Mod:
        datetime = _DT
        timezone = _real_dt.timezone
        timedelta = _real_dt.timedelta
        date = _real_dt.date

        def __getattr__(self, name):
            return getattr(_real_dt, name)

    return _Mod(), _DT


class Env:
    """Installs a (clock profile, wall date) pair process-wide; restores on exit.

    The clock is owned by replacing the functions of the `time` module itself (every `time.time()` /
    `time.perf_counter()` call anywhere in the engine, present or future, gets the scripted answer); the wall date
    by replacing `datetime.datetime` in the `datetime` module and in every loaded clematis/configs module that
    bound the class or the module under another name."""

    TIME_FNS = ("time", "perf_counter", "monotonic")

    def __init__(self, clock, date, tz="real"):
        self.clock, self.date, self.tz = clock, date, tz
        self.saved = []
        self._old_tz = None

    def __enter__(self):
        import sys as _s
        if self.tz != "real":
            self._old_tz = (os.environ.get("TZ"),)
            os.environ["TZ"] = self.tz
            _real_time.tzset()
        if self.clock != "real":
            proxy = ClockProxy(self.clock)
            for fn in self.TIME_FNS:
                self.saved.append((_real_time, fn, getattr(_real_time, fn)))
                setattr(_real_time, fn, getattr(proxy, fn))
            self.saved.append((_real_time, "sleep", _real_time.sleep))
            _real_time.sleep = proxy.sleep
            for nm in ("time_ns", "perf_counter_ns", "monotonic_ns"):
                base = getattr(proxy, nm[:-3])
                self.saved.append((_real_time, nm, getattr(_real_time, nm)))
                setattr(_real_time, nm, (lambda b=base: int(b() * 1e9)))
        if self.date != "real":
            modp, cls = make_dt_proxy(self.date)
            real_cls = _REAL_DATETIME_CLS
            self.saved.append((_real_dt, "datetime", _real_dt.datetime))
            _real_dt.datetime = cls
            for name, m in list(_s.modules.items()):
                if m is None or not (name.startswith("clematis") or name.startswith("configs")):
                    continue
                for attr, val in list(vars(m).items()):
                    if val is real_cls:
                        self.saved.append((m, attr, val))
                        setattr(m, attr, cls)
        return self

    def __exit__(self, *a):
        for m, n, v in reversed(self.saved):
            setattr(m, n, v)
        self.saved = []
        if self._old_tz is not None:
            if self._old_tz[0] is None:
                os.environ.pop("TZ", None)
            else:
                os.environ["TZ"] = self._old_tz[0]
            _real_time.tzset()
            self._old_tz = None


# ------------------------------------------------------------------ scenarios
def _world(name):
    from mc import world as W
    if name == "W2t":
        st = W.make_world("W2")
        # an episode without a timestamp (legal: 'ts' is optional) and one with an unparsable one
        st["mem_index"].add(W._ep("ep8", "A", "apple fig", ts=None, cluster="c1", importance=0.5))
        st["mem_index"].add(W._ep("ep9", "B", "pear pear", ts="not-a-date", cluster="c2", importance=0.5))
        # two old episodes without a cluster id and with bit-identical vectors: their derived singleton clusters tie for
        # the best cluster of the query 'pear fig' (the clusters_top_m cut goes through the tie under cfg cluster_only)
        st["mem_index"].add(W._ep("ep10", "A", "pear fig", 50, None, 0.2))
        st["mem_index"].add(W._ep("ep11", "world", "pear fig", 60, None, 0.8))
        return st
    return W.make_world(name)


CFG_EXTRA = {
    # configurations for the batch-driver scenarios (the driver's per-agent context carries no injected encoder, so the
    # engine's own deterministic 32-dim encoder is used and the worlds' episodes are re-embedded with it; threshold -1
    # admits every episode so that recency window and ranking decide)
    "drv_base": {"t2": {"sim_threshold": -1.0}},
    "drv_exact": {"t2": {"sim_threshold": -1.0, "tiers": ["exact_semantic"], "exact_recent_days": 30}},
    "drv_gel": {"t2": {"sim_threshold": -1.0}, "graph": {"enabled": True, "coactivation_threshold": 0.0, "update": {"alpha": 0.5},
                                                         "decay": {"half_life_turns": 2, "floor": 0.01}}},
    # budget-driven yields (quantum / wall budgets out of reach so no time-driven yield can occur): the yield paths of
    # turn.jsonl / scheduler.jsonl are part of the canonical output too
    "sched_yield_t3": {"scheduler": {"enabled": True, "quantum_ms": 10 ** 9, "budgets": {"wall_ms": 10 ** 9, "t3_ops": 1}}},
    "sched_yield_t2": {"scheduler": {"enabled": True, "quantum_ms": 10 ** 9, "budgets": {"wall_ms": 10 ** 9, "t2_k": 2, "t3_ops": 8}}},
    "sched_yield_t1": {"scheduler": {"enabled": True, "quantum_ms": 10 ** 9, "budgets": {"wall_ms": 10 ** 9, "t1_iters": 1, "t3_ops": 8}}},
    "exact_only": {"t2": {"tiers": ["exact_semantic"], "exact_recent_days": 30}},
    "reflect_drv": {"t2": {"sim_threshold": -1.0}, "t3": {"allow_reflection": True, "reflection": {"summary_tokens": 8}},
                    "scheduler": {"budgets": {"ops_reflection": 2}}},
    "cluster_only": {"t2": {"tiers": ["cluster_semantic"], "clusters_top_m": 1}},
    "small_lru": {"t1": {"cache": {"max_entries": 1}}, "t2": {"cache": {"max_entries": 1}}},
}


def scenario_list(thorough):
    from mc import world as W
    cfgs = dict(W.CONFIG_MENU)
    cfgs.update(CFG_EXTRA)
    turns_alpha = [(a, x) for a in ("A", "B") for x in ("apple", "pear fig")]
    seqs = []
    if thorough:
        for L in (1, 2, 3):
            for s in itertools.product(turns_alpha, repeat=L):
                if L == 3 and s[0][0] != "A":
                    continue
                seqs.append(list(s))
    else:
        for s in itertools.product(turns_alpha, repeat=2):
            if s[0][0] == "A":
                seqs.append(list(s))
    out = []
    for w in ("W0", "W1", "W2t"):
        for cn in sorted(cfgs):
            for s in seqs:
                if w == "W0" and len(s) > 1 and not thorough:
                    continue
                out.append({"world": w, "cfg": cn, "turns": [list(t) for t in s]})
    # the same turns driven through the agent batch driver (its sequential path clones the context per agent): the
    # driver is an entry point of the engine like run_turn
    for w in ("W1", "W2t"):
        for cn in ("drv_base", "drv_exact", "drv_gel"):
            for s in seqs:
                if len(s) == 2:
                    out.append({"world": w, "cfg": cn, "turns": [list(t) for t in s], "driver": "batch"})
    # a planner that asks for reflection (the rule-based planner never does; the LLM planner and custom planners can):
    # the reflection write path stamps memory entries that later turns retrieve
    for w in ("W1", "W2t"):
        for s in seqs:
            if len(s) >= 2:
                out.append({"world": w, "cfg": "reflect_drv", "turns": [list(t) for t in s], "planner": "reflect"})
    return out, cfgs


class FixedExec:
    """execution environment over given directories (resume leg: the snapshot directory persists between runs and keeps
    its path string; the log directory is per phase).  Same interface as mc.world.Exec; close() keeps the files."""

    def __init__(self, root, phase):
        self.root = root
        self.log_dir = os.path.join(root, "logs-" + phase)
        self.snap_dir = os.path.join(root, "snaps")
        os.makedirs(self.log_dir, exist_ok=True)
        os.makedirs(self.snap_dir, exist_ok=True)

    def activate(self):
        os.environ["CLEMATIS_LOG_DIR"] = self.log_dir
        os.environ["CLEMATIS_SNAPSHOT_DIR"] = self.snap_dir

    def logs(self):
        from mc import world as W
        return {k: v.replace(self.root.encode(), b"<ROOT>") for k, v in W.read_dir(self.log_dir).items()}

    def snaps(self):
        from mc import world as W
        return {k: v.replace(self.root.encode(), b"<ROOT>") for k, v in W.read_dir(self.snap_dir).items()}

    def close(self):
        pass


def run_scenario(sc, cfgs, scratch, reset=True, ex=None):
    """Returns {name: bytes-as-str} of the digest parts."""
    from mc import world as W
    if reset:
        W.reset_globals()
    if ex is None:
        ex = W.Exec(scratch, "c01")
    ex.activate()
    _undo = None
    try:
        cfg = W.make_cfg(cfgs[sc["cfg"]], snap_dir=ex.snap_dir)
        state = _world(sc["world"])
        if sc.get("driver") == "batch" or sc.get("planner") == "reflect":
            from clematis.adapters.embeddings import BGEAdapter
            _enc = BGEAdapter(dim=32)
            for _e in state["mem_index"]._eps:
                _e["vec_full"] = _enc.encode([_e.get("text", "")])[0]
        lines = []
        if sc.get("planner") == "reflect":
            import dataclasses as _dc
            import clematis.engine.orchestrator as _orch_pkg
            from clematis.engine.stages.t3 import deliberate as _real_deliberate
            _undo = ("t3_deliberate" in vars(_orch_pkg), vars(_orch_pkg).get("t3_deliberate"))
            _orch_pkg.t3_deliberate = lambda _c, _s, bundle: _dc.replace(_real_deliberate(bundle), reflection=True)
            state["memory_index"] = state["mem_index"]  # reflections land in the index later turns retrieve from
        else:
            _undo = None
        for i, (agent, text) in enumerate(sc["turns"], start=1):
            ctx = W.make_ctx(cfg, agent, i)
            if sc.get("planner") == "reflect":
                del ctx.enc  # the engine's own deterministic encoder, the one the reflection write path embeds with
                # logical clock: one day per turn, so that an entry stamped in turn i has a non-zero age in turn i+1
                ctx.now_ms = W.NOW_MS + 86400000 * i
                ctx.now = "2025-06-%02dT00:00:00Z" % (1 + i)
            if sc.get("driver") == "batch":
                import clematis.engine.orchestrator as _orch
                res = _orch._run_agents_parallel_batch(ctx, state, [(agent, text)])[0]
            else:
                res = W.run_turn(ctx, state, text)
            lines.append(res.line)
        parts = {"lines": json.dumps(lines, ensure_ascii=False)}
        logs = ex.logs()
        for name in CANON:
            if name in logs:
                b = logs[name].decode("utf-8")
                if name == "scheduler.jsonl":
                    rows = []
                    for ln in b.splitlines():
                        r = json.loads(ln)
                        if isinstance(r.get("consumed"), dict):
                            r["consumed"]["ms"] = 0
                        rows.append(json.dumps(r, ensure_ascii=False))
                    b = "\n".join(rows) + ("\n" if rows else "")
                parts["log:" + name] = b
        for name, body in sorted(ex.snaps().items()):
            if name.endswith(".json"):
                parts["snap:" + name] = body.decode("utf-8")
        return parts
    finally:
        ex.close()
        if sc.get("planner") == "reflect" and _undo is not None:
            import clematis.engine.orchestrator as _orch_pkg
            if _undo[0]:
                _orch_pkg.t3_deliberate = _undo[1]
            else:
                try:
                    delattr(_orch_pkg, "t3_deliberate")
                except AttributeError:
                    pass


# ------------------------------------------------------------------ resume leg (the initial state on disk)
# run_turn boots a state from the snapshot directory.  "Same initial state" therefore includes what is on disk, and "does
# not depend on the process" includes a process that has looked at that directory before.  Units: scenario x disk state,
#   after-run   the directory as an earlier run of the same scenario left it (per-agent state_*.json files)
#   full+delta  a snapshot-5.full.json / snapshot-6.delta.json pair (write_snapshot_auto; the delta adds three GEL edges
#               under one mapping) that the boot loader reconstructs
# For after-run the second run happens twice from the identical directory contents (same path string): in the process that
# performed the first run (warm) and in a fresh interpreter; both must agree (dimension warm-process).  The fresh runs of
# every unit are compared across the hash-seed processes (dimension hashseed).
RESUME_SCENARIOS = [
    {"world": "W2t", "cfg": "base", "turns": [["A", "apple"], ["A", "pear fig"]]},
    {"world": "W2t", "cfg": "gel", "turns": [["A", "apple"], ["B", "apple"]]},
    {"world": "W1", "cfg": "cadence3_nobust", "turns": [["A", "apple"], ["A", "apple"]]},
]
RESUME_DISKS = ["after-run", "full+delta"]


def resume_units(thorough):
    scs = RESUME_SCENARIOS if thorough else RESUME_SCENARIOS[:2]
    return [{"scenario": sc, "disk": d} for sc in scs for d in RESUME_DISKS]


def _edge(src, dst, w):
    return {"id": "%s→%s" % (src, dst), "src": src, "dst": dst, "rel": "coact", "weight": w, "updated_at": None, "attrs": {}}


def _build_full_delta(snap_dir):
    from clematis.engine import snapshot as S
    meta = {"schema": "v1.1", "merges": [], "splits": [], "promotions": [], "concept_nodes_count": 0, "edges_count": 1}
    p1 = {"version_etag": "5", "gel": {"nodes": {}, "edges": {"ep1→ep2": _edge("ep1", "ep2", 0.5)}, "meta": dict(meta)}}
    p2 = json.loads(json.dumps(p1))
    p2["version_etag"] = "6"
    for a, b, w in (("ep2", "ep4", 0.25), ("ep1", "ep4", -0.25), ("ep4", "ep5", 0.75)):
        p2["gel"]["edges"]["%s→%s" % (a, b)] = _edge(a, b, w)
    p2["gel"]["meta"]["edges_count"] = 4
    f1, _ = S.write_snapshot_auto(snap_dir, etag_from=None, etag_to="5", payload=p1)
    f2, was_delta = S.write_snapshot_auto(snap_dir, etag_from="5", etag_to="6", payload=p2, delta_mode=True)
    if not was_delta:
        from mc.runner import HarnessError
        raise HarnessError("resume leg: write_snapshot_auto did not produce a delta file")
    os.utime(f1, (1000, 1000))
    os.utime(f2, (2000, 2000))


def _copy_dir(a, b):
    import shutil
    shutil.rmtree(b, ignore_errors=True)
    shutil.copytree(a, b)
    for fn in os.listdir(a):   # keep modification times (discovery ranks by mtime)
        st = os.stat(os.path.join(a, fn))
        os.utime(os.path.join(b, fn), (st.st_atime, st.st_mtime))


def resume_child_main(argv):
    """fresh interpreter: one run of a scenario over a prepared root; prints nothing, writes the digest parts"""
    spec = json.load(open(argv[0]))
    import logging
    logging.disable(logging.CRITICAL)
    scs, cfgs = scenario_list(False)
    parts = run_scenario(spec["scenario"], cfgs, None, ex=FixedExec(spec["root"], "fresh"))
    json.dump(parts, open(argv[1], "w"))
    return 0


def resume_worker(units, scratch, label):
    """runs in the hash-seed worker process; returns {unit index: {"fresh": parts, "warm": parts?}}"""
    import shutil
    scs, cfgs = scenario_list(False)
    out = {}
    for j, u in enumerate(units):
        root = os.path.join(scratch, "rs-%04d-%6s" % (j, str(label)[:6].rjust(6, "_")))
        shutil.rmtree(root, ignore_errors=True)
        snaps = os.path.join(root, "snaps")
        os.makedirs(snaps)
        entry = {}
        if u["disk"] == "after-run":
            run_scenario(u["scenario"], cfgs, None, ex=FixedExec(root, "first"))
            _copy_dir(snaps, os.path.join(root, "snaps-after-first"))
            entry["warm"] = run_scenario(u["scenario"], cfgs, None, reset=False, ex=FixedExec(root, "warm"))
            _copy_dir(os.path.join(root, "snaps-after-first"), snaps)
        else:
            _build_full_delta(snaps)
        sp, op = os.path.join(root, "child-spec.json"), os.path.join(root, "child-out.json")
        json.dump({"scenario": u["scenario"], "root": root}, open(sp, "w"))
        pr = subprocess.run([sys.executable, "-m", "props.c01_repro", "--resume-child", sp, op], capture_output=True, text=True)
        if pr.returncode != 0 or not os.path.exists(op):
            from mc.runner import HarnessError
            raise HarnessError("resume child failed: %s" % (pr.stderr or "")[-600:])
        entry["fresh"] = json.load(open(op))
        out[str(j)] = entry
        shutil.rmtree(root, ignore_errors=True)
    return out


def worker_main(argv):
    """Runs in its own process under one PYTHONHASHSEED.  Writes {scenario index: {env label: parts or diff}}."""
    spec = json.load(open(argv[0]))
    out_path = argv[1]
    import logging
    logging.disable(logging.CRITICAL)
    scs, cfgs = scenario_list(spec["thorough"])
    scratch = spec["scratch"]
    my = [i for i in range(len(scs)) if i % spec["nshards"] == spec["shard"]]
    res = {}
    envs = [(c, d, "real") for c in spec["clocks"] for d in spec["dates"]] + [("real", "real", z) for z in spec.get("tzs", [])]
    nruns = 0
    # harness self-check: same scenario, same environment, twice -> identical
    # (under a scripted clock and date, so that a genuine wall-clock dependence of the engine is reported as a
    #  property violation by the comparison below, not as a harness problem)
    with Env("frozen", "2020"):
        a = run_scenario(scs[my[0]], cfgs, scratch)
    with Env("frozen", "2020"):
        b = run_scenario(scs[my[0]], cfgs, scratch)
    if a != b:
        json.dump({"harness_error": "nondeterministic harness on scenario %d" % my[0]}, open(out_path, "w"))
        return 0
    for i in my:
        ref = None
        entry = {}
        for (c, d, z) in envs:
            with Env(c, d, z):
                parts = run_scenario(scs[i], cfgs, scratch)
            nruns += 1
            if ref is None:
                ref = parts
                entry["ref"] = parts
            elif parts != ref:
                entry["%s|%s|%s" % (c, d, z)] = {k: v for k, v in parts.items() if ref.get(k) != v}
                for k in ref:
                    if k not in parts:
                        entry["%s|%s|%s" % (c, d, z)][k] = None
        res[str(i)] = entry
    # warm leg: every scenario again, process-global caches NOT reset, real environment
    for i in my:
        parts = run_scenario(scs[i], cfgs, scratch, reset=False)
        nruns += 1
        ref = res[str(i)]["ref"]
        if parts != ref:
            d = {k: v for k, v in parts.items() if ref.get(k) != v}
            for k in ref:
                if k not in parts:
                    d[k] = None
            res[str(i)]["warm"] = d
    resume = {}
    if spec.get("shard") == 0:
        resume = resume_worker(resume_units(spec["thorough"]), scratch, os.environ.get("PYTHONHASHSEED", "x"))
        nruns += sum(len(v) + (1 if "warm" in v else 0) for v in resume.values())
    json.dump({"results": res, "nruns": nruns, "hashseed": os.environ.get("PYTHONHASHSEED"), "resume": resume}, open(out_path, "w"))
    return 0


# ------------------------------------------------------------------ thread-schedule leg (E3b on the stages' own pools)
# The parallel stages create a thread pool per call; which worker runs when is an environment choice just like the
# hash seed.  mc.sched_pool turns the pool's workers into baton-scheduled threads and enumerates every schedule with
# at most `bound` preemptions; everything the stage returns (deltas / hits AND every counter, cache diagnostics
# included - they are written to t1.jsonl / t2.jsonl) must be the same in all of them, and so must the result of an
# immediately following call in the same process (what the schedule left behind in the process-global caches).
def _thr_world():
    from mc import world as W
    st = W.make_world("W2")
    nodes = [("n1", "apple", {"tags": ["fruit"]}), ("n2", "pear"), ("n3", "fig")]
    edges = [("e1", "n1", "n2", 0.75, "supports"), ("e2", "n2", "n3", 0.5, "associates"), ("e3", "n3", "n1", 0.5, "contradicts")]
    for gid in ("ta", "tb"):  # two graphs of identical content under different ids (per-agent clones of a template)
        W._graph(st["store"], gid, nodes, edges)
    W._graph(st["store"], "g3x", [("x1", "apple"), ("x2", "plum")], [("y1", "x1", "x2", 0.5, "supports")])
    return st


def threads_units(thorough):
    units = []
    for graphs in ((["ta", "tb"], ["ta", "g2"], ["ta", "tb", "g2"]) if thorough else (["ta", "tb"], ["ta", "g2"])):
        for text in (("apple", "pear fig") if thorough else ("apple",)):
            for cap in ((512, 1) if thorough else (512,)):
                for warm in (False, True):
                    if len(graphs) == 3 and (warm or cap == 1) and not thorough:
                        continue
                    # two preemptions for the pre-warmed two-worker units on the default text (thorough; ~15k schedules each);
                    # one everywhere else (a fresh two-worker unit has ~900 schedules with one preemption, ~400k with two)
                    b2 = thorough and len(graphs) == 2 and text == "apple" and warm
                    units.append({"stage": "t1", "graphs": graphs, "text": text, "cap": cap, "warm": warm, "bound": 2 if b2 else 1})
    if thorough:
        # capacity == fan-out, both entries cached: the workers' hits touch the LRU recency order; the follow-up call adds a
        # third graph first, so which of the two is evicted shows in its counters
        for graphs in (["ta", "tb"], ["ta", "g2"]):
            units.append({"stage": "t1", "graphs": graphs, "text": "apple", "cap": 2, "warm": True, "bound": 1,
                          "next_graphs": ["g3x"] + graphs})
    for tiers in (["exact_semantic"], ["cluster_semantic"], ["exact_semantic", "cluster_semantic", "archive"]):
        for w in ((2, 3) if thorough else (2,)):
            for warm in (False, True):
                units.append({"stage": "t2", "tiers": tiers, "w": w, "text": "apple fig", "warm": warm, "bound": 1})
    return units


_THR = {}


def _thr_mods():
    if not _THR:
        import clematis.engine.stages.t1 as t1_mod
        import clematis.engine.stages.t2.core as t2_core
        import clematis.engine.stages.t2.parallel as t2_par
        import clematis.engine.util.parallel as par_mod
        import clematis.memory.index as idx_mod
        _THR.update(t1=t1_mod, t2=t2_core, t2par=t2_par, par=par_mod, idx=idx_mod)
    return _THR


def _thr_call(unit):
    """returns a zero-argument function running the unit once (fresh world, process-global caches reset)"""
    from mc import world as W
    import types as _types
    M = _thr_mods()
    if unit["stage"] == "t1":
        n = len(unit["graphs"])
        cfg_par = W.make_cfg(W.deep_merge({"t1": {"cache": {"enabled": True, "max_entries": unit["cap"], "ttl_s": 300}}},
                                          {"perf": {"parallel": {"enabled": True, "t1": True, "max_workers": n}}}))

        cfg_seq = W.make_cfg({"t1": {"cache": {"enabled": True, "max_entries": unit["cap"], "ttl_s": 300}}})

        def call():
            W.reset_globals()
            st = _thr_world()
            st["active_graphs"] = list(unit["graphs"])
            if unit["warm"]:
                M["t1"].t1_propagate(W.make_ctx(cfg_seq, "A", 1), st, unit["text"])  # sequential: a deterministic warm-up
            return ("run", st)

        def body(st):
            r = M["t1"].t1_propagate(W.make_ctx(cfg_par, "A", 2), st, unit["text"])
            return {"deltas": r.graph_deltas, "metrics": dict(r.metrics)}

        def after(st):
            if unit.get("next_graphs"):
                st["active_graphs"] = list(unit["next_graphs"])
            r = M["t1"].t1_propagate(W.make_ctx(cfg_seq, "A", 3), st, unit["text"])  # sequential: what the schedule left behind
            return {"deltas": r.graph_deltas, "metrics": dict(r.metrics)}
        return call, body, after
    cfg = W.make_cfg({"t2": {"tiers": list(unit["tiers"]), "k_retrieval": 4, "clusters_top_m": 2, "sim_threshold": -1.0},
                      "perf": {"parallel": {"enabled": True, "t2": True, "max_workers": unit["w"]}}})
    cfg_seq2 = W.make_cfg({"t2": {"tiers": list(unit["tiers"]), "k_retrieval": 4, "clusters_top_m": 2, "sim_threshold": -1.0}})
    t1r = _types.SimpleNamespace(graph_deltas=[], metrics={})

    def view(r):
        return {"ids": [str(x.id) for x in r.retrieved], "scores": [float(x.score) for x in r.retrieved],
                "residual": list(r.graph_deltas_residual), "metrics": dict(r.metrics)}

    def call():
        W.reset_globals()
        st = W.make_world("W2")
        if unit["warm"]:
            M["t2"].t2_semantic(W.make_ctx(cfg_seq2, "A", 1), st, "pear", t1r)
        return ("run", st)

    def body(st):
        return view(M["t2"].t2_semantic(W.make_ctx(cfg, "A", 2), st, unit["text"], t1r))

    def after(st):
        return view(M["t2"].t2_semantic(W.make_ctx(cfg_seq2, "A", 3), st, unit["text"], t1r))
    return call, body, after


def _thr_files(unit):
    M = _thr_mods()
    if unit["stage"] == "t1":
        return [M["t1"].__file__]
    return [M["t2par"].__file__, M["idx"].__file__]


def _thr_explorer(unit, bound, max_exec=None):
    from mc import sched_pool
    M = _thr_mods()
    return sched_pool.PoolExplorer(M["par"], _thr_files(unit), bound, max_exec=max_exec)


def _thr_guard(fn, st):
    """an exception of the engine inside the observed call is an observation (a schedule under which the stage raises
    while it answers under another is exactly what the leg looks for), not a harness failure"""
    from mc.runner import HarnessError
    from mc.sched_pool import PoolAbort
    try:
        return fn(st)
    except (HarnessError, PoolAbort):
        raise
    except Exception as e:  # noqa: BLE001
        return {"raised": "%s: %s" % (type(e).__name__, str(e)[:200]), "metrics": {}}


def _thr_one(unit, pe, prefix, strict=True):
    """one schedule: set-up on the calling thread (sequential configuration), the observed call under the controlled
    pool, then a follow-up call (sequential configuration again: what the schedule left in the process-global caches)"""
    call, body, after = _thr_call(unit)
    _, st = call()
    ex, obs = pe.run_one(lambda: _thr_guard(body, st), prefix, strict=strict)
    return ex, {"call": obs, "next": _thr_guard(after, st)}


def _thr_diff(ref, got):
    out = []
    for which in ("call", "next"):
        a, b = ref[which], got[which]
        for k in sorted(set(a) | set(b)):
            if k == "metrics":
                for m in sorted(set(a[k]) | set(b[k])):
                    if a[k].get(m, "<absent>") != b[k].get(m, "<absent>"):
                        out.append(("%s.metrics.%s" % (which, m), a[k].get(m, "<absent>"), b[k].get(m, "<absent>")))
            elif a.get(k) != b.get(k):
                out.append(("%s.%s" % (which, k), a.get(k), b.get(k)))
    return out


def _thr_tag(unit):
    """input class of a unit for the signature: a result cache smaller than the number of concurrently processed
    graphs is its own class (which entries survive then depends on the order of the workers' writes)"""
    if unit["stage"] == "t1" and unit["cap"] < len(set(unit["graphs"]) | set(unit.get("next_graphs") or ())):
        return "t1[lru-capacity<graphs]"
    return unit["stage"]


THR_SUBTREE_CAP = 60000


def _thr_record(unit, st, ref, ex, obs):
    st.add("transitions")
    st.add("validated")
    st.add("thread_schedules")
    if ex.preemptions() > 0:
        st.add("nontrivial")
    if ex.deadlock or obs["call"] is None:
        st.violation("threads:%s:deadlock" % unit["stage"], "unit %s deadlocks under schedule %r" % (json.dumps(unit), ex.choices()),
                     {"dimension": "threads", "unit": unit, "choices": ex.choices()})
        return
    st.distinct("outcomes", ("threads", json.dumps(unit, sort_keys=True), json.dumps(obs, sort_keys=True, default=repr)))
    if obs != ref:
        for fld, a, b in _thr_diff(ref, obs):
            st.violation("threads:%s:%s" % (_thr_tag(unit), fld),
                         "unit %s: %s is %r under the default schedule and %r under schedule %r (%d preemption(s))" % (
                             json.dumps(unit), fld, a, b, ex.choices(), ex.preemptions()),
                         {"dimension": "threads", "unit": unit, "choices": ex.choices(), "field": fld})


def _threads_roots(units, st):
    """default schedule of every unit (run twice: must be reproducible) -> work items (unit, child prefix): the subtrees
    below the first-level alternatives are disjoint, so they are explored by separate worker processes"""
    from mc import sched
    from mc.runner import HarnessError
    import logging
    logging.disable(logging.CRITICAL)
    items = []
    for unit in units:
        pe = _thr_explorer(unit, unit["bound"])
        ex, obs = _thr_one(unit, pe, [])
        if ex is None:
            raise HarnessError("threads leg: unit %r did not fan out" % (unit,))
        ex2, obs2 = _thr_one(unit, pe, [])
        if ex2 is None or ex2.trace != ex.trace or obs2 != obs:
            raise HarnessError("threads leg: the default schedule of %r is not reproducible" % (unit,))
        if obs["call"] is None:
            raise HarnessError("threads leg: unit %r deadlocks under the default schedule" % (unit,))
        _thr_record(unit, st, obs, ex, obs)
        st.distinct("states", ("threads", json.dumps(unit, sort_keys=True)))
        for child in sched.children(ex.trace, 0, unit["bound"]):
            items.append((unit, child))
    return items


def _threads_worker(chunk, st):
    from mc import sched
    from mc.runner import HarnessError
    import logging
    logging.disable(logging.CRITICAL)
    refs = {}
    for unit, root in chunk:
        pe = _thr_explorer(unit, unit["bound"])
        ukey = json.dumps(unit, sort_keys=True)
        if ukey not in refs:
            _, refs[ukey] = _thr_one(unit, pe, [])
        ref = refs[ukey]
        stack = [root]
        n = 0
        while stack:
            if n >= THR_SUBTREE_CAP:
                st.add("threads_capped_subtrees")
                break
            prefix = stack.pop()
            ex, obs = _thr_one(unit, pe, prefix)
            if ex is None:
                raise HarnessError("threads leg: unit %r did not fan out under a replayed prefix" % (unit,))
            n += 1
            _thr_record(unit, st, ref, ex, obs)
            stack.extend(sched.children(ex.trace, len(prefix), unit["bound"]))
        st.notes["threads_max_schedules_per_subtree"] = max(st.notes.get("threads_max_schedules_per_subtree", 0), n)


# ------------------------------------------------------------------ parent
def _json_paths(a, b, prefix=""):
    """field paths at which two JSON values differ"""
    if isinstance(a, dict) and isinstance(b, dict):
        out = []
        for k in sorted(set(a) | set(b)):
            if k not in a or k not in b:
                out.append(prefix + k + ("(missing)" if k not in a or k not in b else ""))
            else:
                out += _json_paths(a[k], b[k], prefix + k + ".")
        return out
    if isinstance(a, list) and isinstance(b, list) and len(a) == len(b):
        out = []
        for x, y in zip(a, b):
            out += _json_paths(x, y, prefix + "[].")
        return out
    if a != b or type(a) is not type(b):
        return [prefix.rstrip(".")]
    return []


def diff_fields(part, ref_text, got_text):
    """classify a differing digest part into field paths"""
    if got_text is None or ref_text is None:
        return ["(file-missing)"]
    if part.startswith("log:"):
        ra, rb = ref_text.splitlines(), got_text.splitlines()
        if len(ra) != len(rb):
            return ["(line-count)"]
        out = set()
        for x, y in zip(ra, rb):
            if x != y:
                try:
                    out.update(_json_paths(json.loads(x), json.loads(y)) or ["(formatting)"])
                except Exception:
                    out.add("(unparseable)")
        return sorted(out)
    if part.startswith("snap:"):
        try:
            return sorted(set(_json_paths(json.loads(ref_text), json.loads(got_text)))) or ["(formatting)"]
        except Exception:
            return ["(unparseable)"]
    return ["(value)"]


def run(run):
    from mc.runner import HarnessError
    thorough = run.thorough
    seeds = list(HASH_SEEDS_THOROUGH if thorough else HASH_SEEDS_QUICK)
    extra = str(1000 + int(run.seed))
    if extra not in seeds:
        seeds.append(extra)
    clocks = CLOCKS_THOROUGH if thorough else CLOCKS_QUICK
    dates = DATES_THOROUGH if thorough else DATES_QUICK
    tzs = TZS_THOROUGH if thorough else TZS_QUICK
    scs, cfgs = scenario_list(thorough)
    nshards = max(1, 16 // len(seeds))
    procs = []
    for s in seeds:
        for sh in range(nshards):
            spec = {"thorough": thorough, "clocks": clocks, "dates": dates, "tzs": tzs, "scratch": run.scratch, "nshards": nshards, "shard": sh}
            sp = os.path.join(run.scratch, "spec-%s-%d.json" % (s, sh))
            op = os.path.join(run.scratch, "out-%s-%d.json" % (s, sh))
            json.dump(spec, open(sp, "w"))
            env = dict(os.environ, PYTHONHASHSEED=s)
            p = subprocess.Popen([sys.executable, "-m", "props.c01_repro", "--worker", sp, op], env=env,
                                 stdout=subprocess.PIPE, stderr=subprocess.PIPE)
            procs.append((s, sh, p, op))
    results = {}  # seed -> {scenario idx -> entry}
    resume_res = {}  # seed -> {unit idx -> {"fresh": parts, "warm": parts}}
    for s, sh, p, op in procs:
        so, se = p.communicate()
        if p.returncode != 0 or not os.path.exists(op):
            raise HarnessError("worker hashseed=%s shard=%d failed: %s" % (s, sh, (se or b"").decode()[-800:]))
        data = json.load(open(op))
        if "harness_error" in data:
            raise HarnessError(data["harness_error"])
        results.setdefault(s, {}).update(data["results"])
        if data.get("resume"):
            resume_res[s] = data["resume"]
        run.add("transitions", data["nruns"])
    base_seed = seeds[0]

    def report(dim, i, part, ref_text, got_text, envlabel):
        for fld in diff_fields(part, ref_text, got_text):
            stream = part.split(":", 1)[1] if ":" in part else part
            if part.startswith("snap:"):
                stream = "snapshot"
            sig = "%s:%s:%s" % (dim, stream, fld)
            what = "scenario %s: %s differs in field %s between the reference environment and %s" % (
                json.dumps(scs[i]), part, fld, envlabel)
            run.violation(sig, what, {"scenario": scs[i], "dimension": dim, "env": envlabel, "part": part, "field": fld})

    nvalid = 0
    for i in range(len(scs)):
        ref = results[base_seed][str(i)]["ref"]
        run.distinct("states", scs[i])
        run.distinct("outcomes", hashlib.sha1(json.dumps(ref, sort_keys=True).encode()).hexdigest())
        if len(scs[i]["turns"]) >= 2:
            run.add("nontrivial")
        for s in seeds:
            entry = results[s][str(i)]
            nvalid += 1
            if s != base_seed and entry["ref"] != ref:
                for part in sorted(set(ref) | set(entry["ref"])):
                    if ref.get(part) != entry["ref"].get(part):
                        report("hashseed", i, part, ref.get(part), entry["ref"].get(part), "PYTHONHASHSEED=%s" % s)
            for label, d in entry.items():
                if label == "ref":
                    continue
                nvalid += 1
                for part, got in d.items():
                    if label == "warm":
                        report("warm-process", i, part, entry["ref"].get(part), got, "second run in a warm process (hashseed %s)" % s)
                    else:
                        c, dd, zz = label.split("|")
                        # attribute to the dimension that differs from the reference environment (first env = real|real|real)
                        dim = "timezone" if zz != "real" else ("clock" if dd == dates[0] else ("wall-date" if c == clocks[0] else "clock+wall-date"))
                        report(dim, i, part, entry["ref"].get(part), got, "clock=%s wall-date=%s tz=%s (hashseed %s)" % (c, dd, zz, s))
    run.add("validated", nvalid + (len(seeds) * len(scs) * (len(clocks) * len(dates) + len(tzs))))
    run.notes["time_zones"] = tzs
    # ---- resume leg
    RU = resume_units(thorough)
    run.notes["resume_units"] = len(RU)
    if set(resume_res) != set(seeds):
        raise HarnessError("resume leg: results for hash seeds %r, expected %r" % (sorted(resume_res), seeds))
    for j, u in enumerate(RU):
        ref = resume_res[base_seed][str(j)]["fresh"]
        run.distinct("states", ("resume", json.dumps(u, sort_keys=True)))
        run.distinct("outcomes", hashlib.sha1(json.dumps(ref, sort_keys=True).encode()).hexdigest())
        run.add("nontrivial")
        for s_ in seeds:
            ent = resume_res[s_][str(j)]
            nvalid2 = 1
            for part in sorted(set(ref) | set(ent["fresh"])):
                if ref.get(part) != ent["fresh"].get(part):
                    for fld in diff_fields(part, ref.get(part), ent["fresh"].get(part)):
                        stream = "snapshot" if part.startswith("snap:") else (part.split(":", 1)[1] if ":" in part else part)
                        run.violation("hashseed:%s:%s" % (stream, fld),
                                      "resume unit %s: %s differs in field %s between PYTHONHASHSEED=%s and %s (fresh run booted from the prepared snapshot directory)" % (
                                          json.dumps(u), part, fld, base_seed, s_),
                                      {"resume": u, "dimension": "hashseed", "part": part, "field": fld})
            if "warm" in ent:
                nvalid2 += 1
                for part in sorted(set(ent["fresh"]) | set(ent["warm"])):
                    if ent["fresh"].get(part) != ent["warm"].get(part):
                        for fld in diff_fields(part, ent["fresh"].get(part), ent["warm"].get(part)):
                            stream = "snapshot" if part.startswith("snap:") else (part.split(":", 1)[1] if ":" in part else part)
                            run.violation("warm-process:%s:%s" % (stream, fld),
                                          "resume unit %s: %s differs in field %s between the run resumed in a fresh interpreter and the same run resumed in the process that did the first run (hashseed %s)" % (
                                              json.dumps(u), part, fld, s_),
                                          {"resume": u, "dimension": "warm-process", "part": part, "field": fld})
            run.add("validated", nvalid2)
    TU = threads_units(thorough)
    run.notes["thread_schedule_units"] = len(TU)
    items = _threads_roots(TU, run)
    run.notes["thread_schedule_subtrees"] = len(items)
    run.pmap(_threads_worker, items, procs=16)
    if run.n.get("threads_capped_subtrees"):
        run.cap("thread-schedule leg: %d subtree(s) stopped at %d schedules" % (run.n["threads_capped_subtrees"], THR_SUBTREE_CAP))
    run.notes["hash_seeds"] = seeds
    run.notes["clock_profiles"] = clocks
    run.notes["wall_dates"] = dates
    run.notes["scenarios"] = len(scs)
    run.sample(scs[0])
    run.sample(scs[len(scs) // 2])
    run.sample(scs[-1])
    run.rule = ("scenarios = worlds{W0,W1,W2+ts-less episodes} x %d configurations (one per gate on) x turn sequences over {A,B}x{2 texts}; "
                "environments = hash seeds %s (one process each) x (clock profiles %s x wall dates %s + process time zones %s), plus a warm re-run in the same process; "
                "non-trivial = >=2 turns; outcomes = distinct reference digests" % (len(cfgs), seeds, clocks, dates, tzs))
    run.assume("hash seeds: a fixed list plus 1000+VERIF_SEED, not all 2^32")
    run.assume("thread timing: the T1 / T2 stage pools are explored under the baton scheduler (2-3 workers, every schedule with <= 1 preemption, "
               "<= 2 for the pre-warmed two-worker T1 units in the thorough tier; scheduling points = line events of t1.py resp. t2/parallel.py + memory/index.py; "
               "cache / store methods in other files are atomic steps); in the full-turn scenarios the pools run free; completion orders of larger pools are C09's")
    run.assume("sidecar .meta files (wall-clock created_at by design unless SOURCE_DATE_EPOCH) are not snapshot bodies and are not compared")
    run.assume("scheduler configs use quantum/wall budgets of 1e9 ms so only budget-driven yields occur; consumed.ms masked")


def replay(case):
    import tempfile, shutil
    from mc import world as W
    scs, cfgs = scenario_list(True)
    d = tempfile.mkdtemp(prefix="c01r", dir="/dev/shm" if os.path.isdir("/dev/shm") else None)
    try:
        if case.get("resume") is not None:
            if case.get("dimension") != "warm-process" or case["resume"]["disk"] != "after-run":
                return []  # needs several interpreters with different hash seeds: re-run the check
            ent = resume_worker([case["resume"]], d, "replay")["0"]
            out = []
            for part in sorted(set(ent["fresh"]) | set(ent["warm"])):
                if ent["fresh"].get(part) != ent["warm"].get(part):
                    for fld in diff_fields(part, ent["fresh"].get(part), ent["warm"].get(part)):
                        stream = "snapshot" if part.startswith("snap:") else (part.split(":", 1)[1] if ":" in part else part)
                        out.append(("warm-process:%s:%s" % (stream, fld), "differs"))
            return out
        if case.get("dimension") == "threads":
            unit = case["unit"]
            pe = _thr_explorer(unit, unit["bound"])
            _, ref = _thr_one(unit, pe, [])
            _, got = _thr_one(unit, pe, [(int(c), None) for c in case.get("choices", [])], strict=False)
            return [("threads:%s:%s" % (_thr_tag(unit), fld), "%r vs %r" % (a, b)) for fld, a, b in _thr_diff(ref, got)]
        sc = case["scenario"]
        ref = run_scenario(sc, cfgs, d)
        dim = case["dimension"]
        if dim == "warm-process":
            # the worker re-runs every scenario in a process whose caches earlier scenarios have filled; the replay
            # re-runs this one scenario several times without a reset so that bounded caches reach their limits too
            out = []
            for _ in range(8):
                got = run_scenario(sc, cfgs, d, reset=False)
                for part in sorted(set(ref) | set(got)):
                    if ref.get(part) != got.get(part):
                        for fld in diff_fields(part, ref.get(part), got.get(part)):
                            stream = "snapshot" if part.startswith("snap:") else (part.split(":", 1)[1] if ":" in part else part)
                            if ("%s:%s:%s" % (dim, stream, fld), "differs") not in out:
                                out.append(("%s:%s:%s" % (dim, stream, fld), "differs"))
            return out
        elif dim == "hashseed":
            return []  # needs another process: re-run the check
        else:
            env = case["env"]
            c = env.split("clock=")[1].split(" ")[0]
            dd = env.split("wall-date=")[1].split(" ")[0]
            zz = env.split("tz=")[1].split(" ")[0] if "tz=" in env else "real"
            with Env(c, dd, zz):
                got = run_scenario(sc, cfgs, d)
        out = []
        for part in sorted(set(ref) | set(got)):
            if ref.get(part) != got.get(part):
                for fld in diff_fields(part, ref.get(part), got.get(part)):
                    stream = "snapshot" if part.startswith("snap:") else (part.split(":", 1)[1] if ":" in part else part)
                    out.append(("%s:%s:%s" % (dim, stream, fld), "differs"))
        return out
    finally:
        shutil.rmtree(d, ignore_errors=True)


if __name__ == "__main__":
    if len(sys.argv) >= 2 and sys.argv[1] == "--worker":
        sys.exit(worker_main(sys.argv[2:]))
    if len(sys.argv) >= 2 and sys.argv[1] == "--resume-child":
        sys.exit(resume_child_main(sys.argv[2:]))
