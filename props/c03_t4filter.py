"""C03 — meta-filter (t4_filter) output always stays inside the safety envelope.

Engine E2: exhaustive small-scope enumeration of plans x caps x cooldown histories x context shapes, executed on
the real ``clematis.engine.stages.t4.t4_filter``; every execution is compared with a boring reference pipeline
(exact ``Fraction`` arithmetic up to the square root) and with the envelope invariants of the statement.

Legs
  A  values / caps   : every multiset of <= n deltas over TARGETS x VALUES (no ops), every caps setting with <= 2
                       deviations from the defaults; every distinct ordering of the multiset is executed.
  B  cooldowns       : every ops list (<= 2 ops) x cooldown menu x last-turn history x turn x delta multiset with
                       op provenance (op_idx in {None,0,1}) x a few caps; every distinct ordering executed.
  B2 accessor shapes : container shape of EVERY level of the documented path state.meta.cooldowns, independently
                       (state {object, dict, attribute-dict} x meta {object, dict, attribute-dict}; for an empty
                       history also every way a level can be missing: no meta entry, meta None, meta without a
                       cooldowns entry, cooldowns None) x turn-id type {int, str} x plan shape {Plan, dict}.
  C  context shapes  : the configuration offered as ctx.config / ctx.cfg / both x root container {Config dataclass,
                       attribute-dict (run_smoke_turn's shape), plain dict (what validate_config returns)}
                       (+ the declared TurnCtx dataclass, which only has cfg).
  D  call history    : partial / absent t4 sections after an earlier call with other caps.
  E  key collation   : a second target alphabet on which the order of the documented canonical key STRING
                       'kind:id:attr' differs from every plausible other collation (component-wise tuple order, natural
                       numeric order, case-folded order, attr-major order, id-length order): ids in a prefix relation
                       followed by a character below / above the ':' separator, unpadded numbers, mixed case, two attrs.
                       Every multiset of <= n deltas over it x tie-producing values x caps that cut at a tie.

Oracle clauses (signature prefix): envelope:* (invariants of the statement, independent of the reference),
report:* (blocked ops reported), ref:* (documented pipeline), perm:* (order independence, all permutations),
purity:* (arguments unmutated, repeat call equal, unrelated junk / call history irrelevant),
ctx-shape:* (configured caps ignored for a context shape), state-shape:* (the filter's own outcome for one logical
cooldown history differs between container shapes of state / meta), raises:*.
"""
from __future__ import annotations

import copy
import itertools
import math
import re
from fractions import Fraction
from functools import lru_cache
from types import SimpleNamespace as NS

from mc.runner import HarnessError, Run, Stats

from clematis.engine.stages import t4 as t4mod
from clematis.engine.types import (Config, CreateGraphOp, EditGraphOp, Plan, ProposedDelta, SpeakOp, TurnCtx)
from configs.validate import validate_config

INF = float("inf")
REL = 1e-12      # relative tolerance for magnitudes
# Duplicates of incomparable magnitude on one target ([1e300, 0.25, -1e300]) are merged by one-by-one float addition, so
# the merged value (0.0 or 0.25) depends on the listing order.  DESIGN puts float non-associativity outside the alphabet:
# such multisets are executed, envelope- and purity-checked, and their reference/permutation mismatches are counted but
# not judged.  Set to True to have them reported (signature suffix ``float-absorption``).
JUDGE_ABSORPTION = False
ABS = 1e-300     # absolute tolerance (denormals under scaling)

# ---------------------------------------------------------------- alphabets
# canonical-key string order == tuple order for this alphabet (asserted below), so "canonical target order" is
# unambiguous; ids follow the shapes documented in types.py ("n:node_id", "e:src|rel|dst"), one id has an extra ':'
TARGETS = [("edge", "e:a|coact|b", "weight"), ("node", "n:a", "weight"), ("node", "n:a:x", "weight"),
           ("node", "n:b", "weight")]
VALUES_FULL = [0.0, 2.0 ** -20, -(2.0 ** -20), 0.25, -0.25, 0.5, -0.5, 1.0, -1.0, 4.0, -4.0, 5e-324, 1e300, -1e300]
VALUES_N4 = [0.0, 2.0 ** -20, 0.25, -0.25, 0.5, -1.0, 4.0]
VALUES_QUICK3 = [0.0, 2.0 ** -20, 0.25, -0.25, 0.5, -0.5, 1.0, -1.0, 4.0, 5e-324, 1e300, -1e300]
VALUES_R3 = [0.0, 2.0 ** -20, 0.25, -0.25, 0.5, -1.0]
NCHUNKS = 256   # fixed, so that the partition (and every count) is independent of the worker count

DEFAULT_CAPS = {"nov": 0.3, "l2": 1.5, "churn": 64}
NOV_ALT = [2.0 ** -20, 1.0]
L2_ALT = [2.0 ** -10, 0.3, 1e9]
CHURN_ALT = [0, 1, 2]

OPS_ALPHABET = ["Speak", "EditGraph", "CreateGraph", "dict:EditGraph"]
REASONS = ("COOLDOWN_BLOCKED", "NOVELTY_SPIKE", "DELTA_NORM_HIGH", "CHURN_CAP_HIT")


def keystr(t):
    return "%s:%s:%s" % (t[0], t[1], t[2])


assert sorted(TARGETS) == sorted(TARGETS, key=keystr) == TARGETS


# Leg E: targets on which the canonical key STRING order is told apart from other collations.  Ids keep the documented
# shapes ("n:node_id", "e:src|rel|dst"); kinds are the two declared ones.  In canonical (string) order:
TARGETS_COLL = [("edge", "e:n:1|coact|n:2", "weight"),
                ("node", "n:10", "weight"),      # "n:10:" < "n:1:w" because '0' < ':'  (prefix + character below the separator)
                ("node", "n:1", "weight"),
                ("node", "n:1a", "weight"),      # prefix + character above the separator (control: both collations agree)
                ("node", "n:2", "label"),        # second attr: an attr-major order puts it before every "weight"
                ("node", "n:2", "weight"),
                ("node", "n:B", "weight"),       # upper case sorts before lower case; case-folded order puts it last
                ("node", "n:a-b", "weight"),     # '-' < ':'
                ("node", "n:a", "weight")]
VALUES_COLL = [0.25, -0.25, 1.0]      # +-1/4 tie (also across signs); 1.0 saturates at every novelty cap of the menu
COLL_CAPS_QUICK = [dict(DEFAULT_CAPS), dict(DEFAULT_CAPS, churn=1), dict(DEFAULT_CAPS, churn=2),
                   dict(DEFAULT_CAPS, nov=2.0 ** -20, churn=1), dict(DEFAULT_CAPS, nov=2.0 ** -20, churn=2),
                   dict(DEFAULT_CAPS, l2=0.3, churn=1)]


def _natural(t):
    return [tuple((0, int(x)) if x.isdigit() else (1, x) for x in re.findall(r"\d+|\D+", c)) for c in t]


# other collations a re-implementation of the key could slip into; each must disagree with the canonical string order
# on this alphabet (otherwise the leg could not tell them apart)
ALT_COLLATIONS = {"tuple": lambda t: t, "natural-numeric": _natural, "case-folded": lambda t: keystr(t).lower(),
                  "attr-major": lambda t: (t[0], t[2], t[1]), "shortest-id-first": lambda t: (t[0], len(t[1]), t[1], t[2])}
assert TARGETS_COLL == sorted(TARGETS_COLL, key=keystr) and len({keystr(t) for t in TARGETS_COLL}) == len(TARGETS_COLL)
for _name, _key in ALT_COLLATIONS.items():
    assert sorted(TARGETS_COLL, key=_key) != TARGETS_COLL, "collation %s not distinguished by TARGETS_COLL" % _name


def caps_menu(thorough: bool):
    """caps settings with <= 2 deviations from the defaults over the three numeric caps"""
    dims = [("nov", NOV_ALT), ("l2", L2_ALT + ([INF] if thorough else [])), ("churn", CHURN_ALT)]
    out = [dict(DEFAULT_CAPS)]
    for k, alts in dims:
        for a in alts:
            c = dict(DEFAULT_CAPS)
            c[k] = a
            out.append(c)
    for (k1, a1s), (k2, a2s) in itertools.combinations(dims, 2):
        for a1 in a1s:
            for a2 in a2s:
                c = dict(DEFAULT_CAPS)
                c[k1] = a1
                c[k2] = a2
                out.append(c)
    return out


def one_dev_caps():
    out = [dict(DEFAULT_CAPS)]
    for k, alts in (("nov", NOV_ALT), ("l2", L2_ALT), ("churn", CHURN_ALT)):
        for a in alts:
            c = dict(DEFAULT_CAPS)
            c[k] = a
            out.append(c)
    return out


def multisets(items, nmax, nmin=0):
    for n in range(nmin, nmax + 1):
        for ms in itertools.combinations_with_replacement(items, n):
            yield ms


# ---------------------------------------------------------------- configuration through the real validator
@lru_cache(maxsize=None)
def _validated(nov, l2, churn, cd_items):
    raw = {"t1": {"decay": {"mode": "exp_floor", "rate": 0.6, "floor": 0.05}},
           "t4": {"novelty_cap_per_node": nov, "delta_norm_cap_l2": l2, "churn_cap_edges": churn,
                  "cooldowns": dict(cd_items)}}
    try:
        out = validate_config(raw)
    except Exception as e:  # the alphabet must lie inside what the validator accepts
        raise HarnessError("caps alphabet rejected by validate_config: %r -> %r" % (raw["t4"], e))
    t4 = out["t4"]
    if (t4["novelty_cap_per_node"], t4["delta_norm_cap_l2"], t4["churn_cap_edges"], t4["cooldowns"]) != (
            nov, l2, churn, dict(cd_items)):
        raise HarnessError("validator normalised the caps alphabet: %r" % (t4,))
    return out


class _AttrDict(dict):
    """same behaviour as the attribute-dict run_smoke_turn wraps its validated config in"""

    def __getattr__(self, name):
        try:
            return self[name]
        except KeyError as e:
            raise AttributeError(name) from e


def _to_attrdict(o):
    if isinstance(o, dict):
        return _AttrDict({k: _to_attrdict(v) for k, v in o.items()})
    if isinstance(o, list):
        return [_to_attrdict(v) for v in o]
    return o


CTX_NAMES = ["both", "config-only", "cfg-only"]
CTX_ROOTS = ["Config", "attrdict", "plain-dict"]
# every (attribute name(s) the configuration is offered under) x (container type of the configuration root), plus the
# declared TurnCtx dataclass (which only has `cfg`); "<names>" alone means the Config dataclass root
CTX_SHAPES = (["both", "config-only", "cfg-only:TurnCtx"] + ["%s:%s" % (n, r) for r in CTX_ROOTS[1:] for n in CTX_NAMES]
              + ["cfg-only:Config"])


def build_ctx(shape, full_cfg, turn, turn_type, junk=False):
    tid = str(turn) if turn_type == "str" else int(turn)
    names, _, root = shape.partition(":")
    root = root or "Config"
    if names not in CTX_NAMES or root not in CTX_ROOTS + ["TurnCtx"] or (root == "TurnCtx" and names != "cfg-only"):
        raise HarnessError("unknown ctx shape %r" % (shape,))
    if root == "attrdict":        # run_smoke_turn's context wraps the validated config like this
        cfgobj = _to_attrdict(copy.deepcopy(full_cfg))
    elif root == "plain-dict":    # what validate_config returns (bench_t4 / tests)
        cfgobj = copy.deepcopy(full_cfg)
    else:
        cfgobj = Config(t4=copy.deepcopy(full_cfg["t4"]))
    if root == "TurnCtx":         # the declared TurnCtx dataclass only has `cfg`; its turn_id is a str
        ctx = TurnCtx(turn_id=tid, agent_id="A", scene_tags=[], now="2025-01-01T00:00:00Z", cfg=cfgobj)
    else:
        ctx = NS(turn_id=tid, agent_id="A", now=None, now_ms=0)
        if names in ("both", "config-only"):
            ctx.config = cfgobj
        if names in ("both", "cfg-only"):
            ctx.cfg = cfgobj
    if junk:
        ctx.junk = {"t4": {"novelty_cap_per_node": 1e-9, "churn_cap_edges": 0}}
        ctx.agent_id = "someone-else"
        ctx.now_ms = 123456789
        ctx.slice_idx = 7
    return ctx


def ctx_view(ctx):
    """live view of the parts of the context the filter may legitimately read (compared with a pristine deep copy)"""
    out = []
    for name in ("config", "cfg"):
        c = getattr(ctx, name, None)
        if c is None:
            out.append(None)
        elif isinstance(c, dict):
            out.append(c.get("t4"))
        else:
            out.append(getattr(c, "t4", None))
    out.append(getattr(ctx, "turn_id", None))
    out.append(sorted(vars(ctx)))
    return out


_CTX_CACHE = {}


def get_ctx(shape, full_cfg, key, turn, turn_type, junk=False):
    """contexts are reused between cases (building a Config costs more than a filter call); every use is followed by
    a comparison with the pristine deep copy taken at construction, a mutated context is reported and evicted"""
    k = (shape, key, turn, turn_type, junk)
    hit = _CTX_CACHE.get(k)
    if hit is None:
        if len(_CTX_CACHE) > 4096:
            _CTX_CACHE.clear()
        ctx = build_ctx(shape, full_cfg, turn, turn_type, junk)
        hit = _CTX_CACHE[k] = (ctx, copy.deepcopy(ctx_view(ctx)))
    return hit[0], hit[1], k


STATE_KINDS = ["ns", "dict", "adict"]     # attribute-style object, plain mapping, mapping that also answers attributes
_LEGACY_STATE_SHAPES = {"ns": "ns/ns", "dict": "dict/dict", "absent": "ns/-"}


def parse_state_shape(shape):
    """'<state>/<meta>[/<cooldowns>]': container kind of the state and of state.meta (STATE_KINDS); meta may also be '-'
    (no meta entry at all) or 'none' (entry present, value None); the optional third part says that the meta container
    has no cooldowns entry ('-') or carries None ('none').  Legacy names ns / dict / absent are kept for stored replays."""
    parts = _LEGACY_STATE_SHAPES.get(shape, shape).split("/")
    if len(parts) == 2:
        parts.append("map")
    if (len(parts) != 3 or parts[0] not in STATE_KINDS or parts[1] not in STATE_KINDS + ["-", "none"]
            or parts[2] not in ("map", "-", "none") or (parts[1] in ("-", "none") and parts[2] != "map")):
        raise HarnessError("unknown state shape %r" % (shape,))
    return tuple(parts)


def state_shape_has_history(shape):
    p = parse_state_shape(shape)
    return p[1] in STATE_KINDS and p[2] == "map"


def state_shapes(empty_history: bool):
    """every container-shape combination of the two levels of state.meta.cooldowns; for an empty history additionally
    every way one of the levels can be missing"""
    out = ["%s/%s" % (s_, m) for s_ in STATE_KINDS for m in STATE_KINDS]
    if empty_history:
        out += ["%s/%s" % (s_, m) for s_ in STATE_KINDS for m in ("-", "none")]
        out += ["%s/%s/%s" % (s_, m, c) for s_ in STATE_KINDS for m in STATE_KINDS for c in ("-", "none")]
    return out


def _container(kind, content):
    if kind == "ns":
        return NS(**content)
    if kind == "adict":
        return _AttrDict(content)
    return dict(content)


def build_state(shape, last, junk=False):
    sk, mk, ck = parse_state_shape(shape)
    if last and not (mk in STATE_KINDS and ck == "map"):
        raise HarnessError("state shape %r cannot carry the history %r" % (shape, last))
    top = {}
    if mk == "none":
        top["meta"] = None
    elif mk != "-":
        meta = {}
        if ck == "map":
            meta["cooldowns"] = dict(last)
        elif ck == "none":
            meta["cooldowns"] = None
        if junk:
            meta["other"] = {"EditGraph": 0}
        top["meta"] = _container(mk, meta)
    if sk != "ns":
        top["version_etag"] = "0"
    if junk:
        top["junk"] = [1, 2, 3]
        top["cooldowns"] = {"EditGraph": 0, "Speak": 0}   # not where the history lives (state.meta.cooldowns)
    return _container(sk, top)


def _c2(v):
    if isinstance(v, dict):
        return {k: (dict(x) if isinstance(x, dict) else x) for k, x in v.items()}
    if isinstance(v, NS):
        return ("ns", {k: (dict(x) if isinstance(x, dict) else x) for k, x in vars(v).items()})
    return v


def state_snapshot(st):
    """two-level copy (deep enough for the states built here)"""
    src = st if isinstance(st, dict) else vars(st)
    return {k: _c2(v) for k, v in src.items()}


def build_op(spec):
    if spec == "Speak":
        return SpeakOp(kind="Speak", intent="ack", topic_labels=["x"], max_tokens=8)
    if spec == "EditGraph":
        return EditGraphOp(kind="EditGraph", edits=[{"op": "upsert_node", "id": "n:a"}], cap=4)
    if spec == "CreateGraph":
        return CreateGraphOp(kind="CreateGraph", title="t", tags=[])
    if spec.startswith("dict:"):
        return {"kind": spec[5:], "edits": []}
    raise HarnessError("unknown op spec %r" % (spec,))


def op_kind(spec):
    return spec[5:] if spec.startswith("dict:") else spec


def build_plan(shape, ops, deltas):
    if shape == "dict":
        return {"version": "t3-plan-v1", "ops": ops, "deltas": deltas}
    return Plan(version="t3-plan-v1", ops=ops, deltas=deltas)


def plan_snapshot(plan):
    if isinstance(plan, dict):
        return (sorted(plan), list(plan["ops"]), repr(plan["ops"]), list(plan["deltas"]), [vars_pd(d) for d in plan["deltas"]])
    return (list(plan.ops), repr(plan.ops), list(plan.deltas), [vars_pd(d) for d in plan.deltas])


def vars_pd(d):
    return (d.target_kind, d.target_id, d.attr, repr(d.delta), d.op_idx, d.idx)


# ---------------------------------------------------------------- reference model (boring, exact)
@lru_cache(maxsize=200000)
def sqrt_frac(s: Fraction) -> Fraction:
    """sqrt of a positive Fraction to ~40 significant digits"""
    p, q = s.numerator, s.denominator
    pq = p * q
    # scale so that the integer square root carries >= 45 digits
    k = max(0, 50 - len(str(pq)) // 2)
    sc = 10 ** k
    return Fraction(math.isqrt(pq * sc * sc), q * sc)


@lru_cache(maxsize=200000)
def exact_mergeable(vals) -> bool:
    """True iff every sub-multiset sum of these floats is itself a float: then naive float summation is exact in
    every order; otherwise float absorption (1e300 + 0.25) makes the merged value depend on the evaluation
    order of ANY implementation that sums floats one by one (outside the dyadic alphabet, see assumptions)."""
    fr = [Fraction(v) for v in vals]
    for r in range(2, len(fr) + 1):
        for sub in itertools.combinations(fr, r):
            s = sum(sub)
            try:
                if Fraction(float(s)) != s:
                    return False
            except OverflowError:
                return False
    return True


class Expected:
    __slots__ = ("targets", "values", "rejected", "blocked", "req", "opt", "counts", "near_tie", "mags", "k",
                 "factor", "absorbing", "merged_ops", "leaky")


@lru_cache(maxsize=64)
def _merge(deltas):
    """step 0 of the pipeline (independent of the caps): exact per-target sums, smallest op index as provenance"""
    merged = {}
    contrib = {}
    for (t, v, o) in deltas:
        contrib.setdefault(t, []).append((v, o))
        if t in merged:
            s, mo = merged[t]
            if mo is None:
                mo = o
            elif o is not None and o < mo:
                mo = o
            merged[t] = (s + Fraction(v), mo)
        else:
            merged[t] = (Fraction(v), o)
    absorbing = any(len(c) > 1 and not exact_mergeable(tuple(sorted(v for v, _ in c))) for c in contrib.values())
    return merged, contrib, absorbing


def reference(deltas, op_specs, cooldowns, last, turn, nov, l2, churn) -> Expected:
    """deltas: sequence of (target tuple, float value, op_idx).  Documented pipeline: merge duplicates (sum; smallest
    op index kept as provenance) -> cooldown (op level) -> novelty clamp -> uniform L2 scale -> keep top-K by |delta|
    (ties: canonical key ascending) -> canonical key order."""
    e = Expected()
    merged, contrib, e.absorbing = _merge(deltas)
    # cooldown: an op of kind K is still in cooldown iff a positive cooldown is configured for K, K was last used at
    # turn L (recorded) and fewer than cooldown turns have passed since
    blocked = []
    for i, spec in enumerate(op_specs):
        kind = op_kind(spec)
        cd = cooldowns.get(kind, 0)
        if cd > 0 and kind in last and (turn - last[kind]) < cd:
            blocked.append(i)
    e.blocked = set(blocked)
    e.rejected = sorted((op_kind(op_specs[i]), i) for i in blocked)
    live = {t: s for t, (s, mo) in merged.items() if mo is None or mo not in e.blocked}
    e.merged_ops = {t: mo for t, (s, mo) in merged.items()}
    # targets whose merged delta survives although one contributing delta came from a blocked op (documented
    # provenance rule keeps only the smallest op index) -- counted as an observation, not judged
    e.leaky = sorted(t for t in live if any(o is not None and o in e.blocked for _, o in contrib[t]))
    novf = Fraction(nov)
    clamped = {}
    n_cl = 0
    for t, s in live.items():
        if abs(s) > novf:
            n_cl += 1
            s = novf if s > 0 else -novf
        clamped[t] = s
    ssq = sum((s * s for s in clamped.values()), Fraction(0))
    factor = Fraction(1)
    ratio = 0.0
    over = False
    if l2 != INF and ssq > 0:
        capf = Fraction(l2)
        root = sqrt_frac(ssq)
        ratio = float(root / capf)
        if ssq > capf * capf:
            over = True
            factor = capf / root
    e.factor = float(factor)
    final = {t: s * factor for t, s in clamped.items()}
    ranked = sorted(final, key=lambda t: (-abs(final[t]), keystr(t)))
    kept = ranked[:churn]
    dropped = len(ranked) - len(kept)
    e.k = churn
    e.mags = {t: float(abs(final[t])) for t in final}
    e.near_tie = False
    if dropped > 0 and kept:
        m_in, m_out = abs(final[kept[-1]]), abs(final[ranked[len(kept)]])
        if m_in != m_out and float(m_in - m_out) <= REL * float(m_in) + ABS:
            e.near_tie = True
    e.targets = sorted(kept, key=keystr)
    e.values = [float(final[t]) for t in e.targets]
    req, opt = set(), set()
    if blocked:
        req.add("COOLDOWN_BLOCKED")
    if n_cl:
        req.add("NOVELTY_SPIKE")
    # the norm cap is reported when the vector had to be scaled; within 2e-6 of the cap either answer is accepted
    if abs(ratio - 1.0) <= 2e-6:
        opt.add("DELTA_NORM_HIGH")
    elif over:
        req.add("DELTA_NORM_HIGH")
    if dropped > 0:
        req.add("CHURN_CAP_HIT")
    e.req, e.opt = req, opt
    e.counts = {"input": len(deltas), "after_cooldown": len(live), "approved": len(kept), "dropped_tail": dropped,
                "novelty_clamped": n_cl, "blocked_ops": len(blocked)}
    return e


# ---------------------------------------------------------------- executing the real filter
def call_impl(ctx, state, plan):
    r = t4mod.t4_filter(ctx, state, None, None, plan, "utter")
    appr = tuple((d.target_kind, d.target_id, d.attr, d.delta, d.op_idx) for d in r.approved_deltas)
    rej = tuple((o.kind, o.idx) for o in r.rejected_ops)
    reasons = tuple(r.reasons)
    m = r.metrics if isinstance(r.metrics, dict) else {}
    counts = m.get("counts") if isinstance(m.get("counts"), dict) else {}
    return appr, rej, reasons, tuple(sorted(counts.items())), m


def close(a, b):
    return a == b or abs(a - b) <= REL * abs(b) + ABS


def envelope(res, e: Expected, proposed, nov, l2, churn):
    """invariants of the statement evaluated on the implementation's output alone"""
    appr, rej, reasons, _, _ = res
    out = []
    tg = [(a[0], a[1], a[2]) for a in appr]
    if len(set(tg)) != len(tg):
        out.append(("envelope:dup-target", "a target is approved more than once: %r" % (appr,)))
    for a in appr:
        if not (abs(a[3]) <= nov * (1 + REL)):
            out.append(("envelope:novelty-exceeded", "|%r| > novelty cap %r for %s" % (a[3], nov, keystr(a))))
            break
    if l2 != INF and appr:
        fs = 0.0
        for a in appr:
            fs += a[3] * a[3]
        if not (fs <= l2 * l2 * (1 - 1e-9)):     # clearly inside: float error is far below 1e-9; else decide exactly
            try:
                ssq = sum((Fraction(a[3]) ** 2 for a in appr), Fraction(0))
                lim = Fraction(l2) * Fraction(l2) * (1 + Fraction(1, 10 ** 12)) ** 2
                if ssq > lim:
                    out.append(("envelope:l2-exceeded", "L2 norm %r > cap %r" % (math.sqrt(float(ssq)), l2)))
            except (ValueError, OverflowError):
                out.append(("envelope:non-finite", "non-finite approved delta: %r" % (appr,)))
    if len(appr) > churn:
        out.append(("envelope:churn-exceeded", "%d approved > churn cap %d" % (len(appr), churn)))
    for a in appr:
        if a[4] is not None and a[4] in e.blocked:
            out.append(("envelope:cooldown-leak", "approved %s originates from op %r which is in cooldown" % (keystr(a), a[4])))
            break
    if not set(tg) <= proposed:
        out.append(("envelope:unproposed-target", "approved targets %r not all proposed" % (sorted(set(tg) - proposed),)))
    ks = [keystr(t) for t in tg]
    if ks != sorted(ks):
        out.append(("envelope:order", "approved not in canonical target order: %r" % (ks,)))
    rs = set(rej)
    miss = [x for x in e.rejected if x not in rs]
    if miss:
        out.append(("report:blocked-op-not-reported", "ops in cooldown %r missing from rejected_ops %r" % (miss, rej)))
    return out


def compare(res, e: Expected, caps):
    """documented pipeline: implementation outcome vs reference"""
    appr, rej, reasons, counts, metrics = res
    out = []
    tg = [(a[0], a[1], a[2]) for a in appr]
    if e.near_tie:
        # a non-exact near tie at the churn boundary: any top-K under tolerance is accepted
        ok = len(tg) == len(e.targets) and all(t in e.mags for t in tg)
        if ok:
            rest = [m for t, m in e.mags.items() if t not in tg]
            lo = min((e.mags[t] for t in tg), default=INF)
            ok = all(lo >= m - (REL * m + ABS) for m in rest)
        if not ok:
            out.append(("ref:approved-targets", "approved %r is no top-%d by magnitude of %r" % (tg, e.k, e.mags)))
    elif tg != e.targets:
        out.append(("ref:approved-targets", "approved targets %r, reference %r" % ([keystr(t) for t in tg],
                                                                                  [keystr(t) for t in e.targets])))
    else:
        for a, v in zip(appr, e.values):
            if not close(a[3], v):
                out.append(("ref:magnitude", "%s approved with %r, reference %r" % (keystr(a), a[3], v)))
                break
    if sorted(rej) != e.rejected:
        out.append(("ref:rejected-ops", "rejected_ops %r, reference %r" % (sorted(rej), e.rejected)))
    rset = set(reasons)
    if not (e.req <= rset <= (e.req | e.opt)) or len(rset) != len(reasons):
        out.append(("ref:reasons", "reasons %r, reference %r (+optional %r)" % (list(reasons), sorted(e.req), sorted(e.opt))))
    cd = dict(counts)
    mm = dict(cd)
    if isinstance(metrics.get("clamps"), dict) and "novelty_clamped" in metrics["clamps"]:
        mm["novelty_clamped"] = metrics["clamps"]["novelty_clamped"]
    if isinstance(metrics.get("cooldowns"), dict) and "blocked_ops" in metrics["cooldowns"]:
        mm["blocked_ops"] = metrics["cooldowns"]["blocked_ops"]
    bad = {k: (mm[k], v) for k, v in e.counts.items() if k in mm and mm[k] != v}
    if not bad and isinstance(metrics.get("caps"), dict):
        mc = metrics["caps"]
        for k, v in (("novelty_cap_per_node", caps["nov"]), ("delta_norm_cap_l2", caps["l2"]), ("churn_cap_edges", caps["churn"])):
            if k in mc and mc[k] != v:
                bad["caps." + k] = (mc[k], v)
    if not bad and isinstance(metrics.get("clamps"), dict) and "l2_scale" in metrics["clamps"]:
        sc = metrics["clamps"]["l2_scale"]
        if not (abs(sc - e.factor) <= 1e-9):
            bad["l2_scale"] = (sc, e.factor)
    if bad and not e.near_tie:
        out.append(("ref:metrics", "metrics (got, reference): %r" % (bad,)))
    return out


def shape_tag(deltas, op_specs):
    tg = [d[0] for d in deltas]
    tags = []
    if len(set(tg)) != len(tg):
        tags.append("dup")
    if op_specs:
        tags.append("ops")
    return "+".join(tags) or "plain"


def make_case(deltas, op_specs, caps, cooldowns, last, turn, turn_type, state_shape, ctx_shape, plan_shape):
    return {"deltas": [[t[0], t[1], t[2], v, o] for (t, v, o) in deltas], "ops": list(op_specs), "caps": dict(caps),
            "cooldowns": dict(cooldowns), "last": dict(last), "turn": turn, "turn_type": turn_type,
            "state_shape": state_shape, "ctx_shape": ctx_shape, "plan_shape": plan_shape}


def run_case(deltas, op_specs, caps, cooldowns, last, turn=5, turn_type="int", state_shape="ns", ctx_shape="both",
             plan_shape="plan", st: Stats = None):
    """Executes one canonical case (canonical ordering, every other distinct ordering, repeat with fresh junk-laden
    context/state) on the real filter and evaluates every oracle clause.  deltas: tuple of (target, value, op_idx) in
    canonical multiset order.  Returns [(sig, what)]."""
    nov, l2, churn = caps["nov"], caps["l2"], caps["churn"]
    ckey = (nov, l2, churn, tuple(sorted(cooldowns.items())))
    full_cfg = _validated(*ckey)
    e = reference(deltas, op_specs, cooldowns, last, turn, nov, l2, churn)
    proposed = {d[0] for d in deltas}
    tag = shape_tag(deltas, op_specs)
    out = []
    pds = [ProposedDelta(target_kind=t[0], target_id=t[1], attr=t[2], delta=v, op_idx=o, idx=i)
           for i, (t, v, o) in enumerate(deltas)]
    ops = [build_op(s) for s in op_specs]
    ctx, ctx_pristine, ctx_k = get_ctx(ctx_shape, full_cfg, ckey, turn, turn_type)
    state = build_state(state_shape, last)
    plan = build_plan(plan_shape, ops, list(pds))
    before = (state_snapshot(state), plan_snapshot(plan))
    ncalls = 0

    def add(sig, what):
        out.append((sig, what))

    def soft(sig):
        # mismatches that float absorption in duplicate merging explains are counted, not judged (see assumptions)
        return e.absorbing and not JUDGE_ABSORPTION and (sig.startswith("ref:") or sig.startswith("perm:"))

    def account(unvalidated=1):
        if st is None:
            return
        st.add("transitions", ncalls)
        st.add("validated", max(0, ncalls - unvalidated))   # the junk/repeat call is compared with the first call only
        if n_soft:
            st.add("float_absorption_mismatches_not_judged", n_soft)
        if e.absorbing:
            st.add("float_absorbing_cases")
        if e.leaky:
            st.add("obs_blocked_contribution_survives_by_min_op_idx")
        if e.near_tie:
            st.add("near_tie_cases")

    n_soft = 0
    try:
        base = call_impl(ctx, state, plan)
        ncalls += 1
    except Exception as ex:  # the filter is total on well-formed plans
        add("raises:%s:%s" % (type(ex).__name__, tag), "t4_filter raised %r" % (ex,))
        return out
    after = (state_snapshot(state), plan_snapshot(plan))
    if before != after:
        add("purity:mutates-args", "state/plan differ after the call: before=%r after=%r" % (before, after))
    if ctx_view(ctx) != ctx_pristine:
        add("purity:mutates-args", "ctx differs after the call: %r, was %r" % (ctx_view(ctx), ctx_pristine))
        _CTX_CACHE.pop(ctx_k, None)
    found = envelope(base, e, proposed, nov, l2, churn) + compare(base, e, caps)
    if found and ctx_shape != "both":
        # Is this the configuration not being seen through this context shape?  Decided on the implementation itself:
        # the outcome equals its own outcome for a context carrying the built-in default caps, and differs from its
        # outcome for the same configured caps offered under both names.
        dkey = (DEFAULT_CAPS["nov"], DEFAULT_CAPS["l2"], DEFAULT_CAPS["churn"], ())
        dctx = get_ctx("both", _validated(*dkey), dkey, turn, turn_type)[0]
        bctx = get_ctx("both", full_cfg, ckey, turn, turn_type)[0]
        try:
            dres = call_impl(dctx, build_state(state_shape, last), plan)
            bres = call_impl(bctx, build_state(state_shape, last), plan)
            ncalls += 2
        except Exception:
            dres = bres = None
        hard = [f for f in found if f[0] != "ref:metrics"]
        if dres is not None and dres[:4] == base[:4] and (bres[:4] != base[:4] or not hard):
            group = "cfg-only" if ctx_shape.startswith("cfg-only") else ctx_shape.split(":")[-1]
            if hard:   # the caps echo in metrics alone is not part of the statement: counted, not reported
                add("ctx-shape:%s" % group,
                    "context shape %s: configured caps nov=%r l2=%r churn=%r cooldowns=%r ignored, built-in defaults used; "
                    "%s: %s" % (ctx_shape, nov, l2, churn, cooldowns, hard[0][0], hard[0][1]))
            elif st is not None:
                st.add("ctx_shape_caps_echo_only")
            if st is not None:
                st.distinct("outcomes", ("ctx-shape", group, bool(hard)))
            account(unvalidated=2)      # the two diagnostic calls are not reference comparisons
            return out
    canon_shape = "/".join(parse_state_shape(state_shape)[:2])
    if canon_shape != "ns/ns" and any(not soft(f[0]) for f in found):
        # Does the container shape of state / meta explain the failure?  Decided on the implementation itself
        # (differential twin): its outcome for the SAME logical history offered in the all-attribute shape differs.
        try:
            nres = call_impl(ctx, build_state("ns/ns", last), plan)
            ncalls += 1
        except Exception:
            nres = None
        if nres is not None and nres[:4] != base[:4]:
            first = [f for f in found if not soft(f[0])][0]
            sk, mk, ck = parse_state_shape(state_shape)
            add("state-shape:%s-state/%s-meta" % (sk, mk),
                "state shape %s, history %r, cooldowns %r, turn %r: outcome %r differs from the filter's own outcome %r for the "
                "same history as object state / object meta; %s: %s" % (state_shape, last, cooldowns, turn, base[:3], nres[:3],
                                                                         first[0], first[1]))
            if st is not None:
                st.distinct("outcomes", ("state-shape", sk, mk))
            account(unvalidated=1)      # the diagnostic call is not a reference comparison
            return out
    for sig, what in found:
        if soft(sig):
            n_soft += 1
        elif JUDGE_ABSORPTION and e.absorbing and not sig.startswith("envelope:"):
            add("%s:float-absorption" % sig, what)
            break
        else:
            add("%s:%s" % (sig, tag), what)
            break       # first failing clause only (keeps the signature set small)
    # every other distinct ordering of the delta list
    n = len(pds)
    if n > 1:
        seen = {tuple(deltas)}
        for perm in itertools.permutations(range(n)):
            key = tuple(deltas[i] for i in perm)
            if key in seen:
                continue
            seen.add(key)
            pplan = build_plan(plan_shape, ops, [pds[i] for i in perm])
            try:
                r = call_impl(ctx, state, pplan)
                ncalls += 1
            except Exception as ex:
                add("raises:%s:%s" % (type(ex).__name__, tag), "t4_filter raised %r for ordering %r" % (ex, perm))
                break
            if st is not None:
                st.add("orderings")
            if r[:4] != base[:4]:
                if soft("perm:"):
                    n_soft += 1
                else:
                    add("perm:order-dependent:%s" % ("float-absorption" if e.absorbing else tag), "ordering %r of the deltas gives %r, canonical ordering gives %r" % (
                        list(perm), r[:3], base[:3]))
                    break
            bad = envelope(r, e, proposed, nov, l2, churn)
            if bad:
                add("%s:%s" % (bad[0][0], tag), "ordering %r: %s" % (list(perm), bad[0][1]))
                break
    # the same plan object again, after the other calls, with a fresh context/state carrying equal relevant content
    # plus unrelated junk: repeatability, independence of call history and of anything but the documented inputs
    jctx, jpristine, jk = get_ctx(ctx_shape, full_cfg, ckey, turn, turn_type, junk=True)
    jstate = build_state(state_shape, last, junk=True)
    try:
        jr = call_impl(jctx, jstate, plan)
        ncalls += 1
        if jr[:4] != base[:4]:
            add("purity:repeat-junk-or-history-sensitive", "repeat call (same plan, fresh equal ctx/state + unrelated "
                "attributes): %r, first call %r" % (jr[:3], base[:3]))
        if ctx_view(jctx) != jpristine:
            add("purity:mutates-args", "ctx differs after the call: %r, was %r" % (ctx_view(jctx), jpristine))
            _CTX_CACHE.pop(jk, None)
    except Exception as ex:
        add("raises:%s:junk" % type(ex).__name__, "t4_filter raised %r with unrelated attributes on ctx/state" % (ex,))
    if plan_snapshot(plan) != before[1]:
        add("purity:mutates-args", "plan differs after the calls: %r, was %r" % (plan_snapshot(plan), before[1]))
    account()
    if st is not None:
        oc = (tuple(sorted(base[2])), min(len(base[0]), 3), len(base[1]), bool(out))
        st.distinct("outcomes", oc)
        if base[2] or tag != "plain" or base[1]:
            st.add("nontrivial")
    return out


# ---------------------------------------------------------------- workers
def _report(st, res, case_args):
    for sig, what in res:
        st.violation(sig, what, make_case(*case_args))


def _leg_a(chunk, st: Stats, sublegs):
    """chunk: list of (subleg id, index, multiset of item indices); sublegs: id -> (items, caps list)"""
    for (sid, mi, ms) in chunk:
        items, caps_list = sublegs[sid]
        deltas = tuple((TARGETS[items[i][0]], items[i][1], None) for i in ms)
        for ci, caps in enumerate(caps_list):
            st.distinct("states", (sid << 44) | (mi << 10) | ci)
            args = (deltas, (), caps, {}, {}, 5, "int", "ns", "both", "plan")
            res = run_case(*args, st=st)
            if res:
                _report(st, res, args)
        if mi % 4001 == 0:
            st.sample(make_case(deltas, (), caps_list[mi % len(caps_list)], {}, {}, 5, "int", "ns", "both", "plan"))


def cooldown_worlds():
    """(cooldowns cfg, last-turn history, turn) triples: every menu entry x every history built from
    {absent, t, t-1, t-cd, t-cd-1} for the EditGraph kind (x {absent, last blocked turn, first free turn} for a
    second configured kind)"""
    menus = [{}, {"EditGraph": 0}, {"EditGraph": 1}, {"EditGraph": 2}, {"EditGraph": 10},
             {"EditGraph": 2, "CreateGraph": 10}, {"Speak": 1, "EditGraph": 1}]
    out = []
    for cds in menus:
        for turn in (0, 5):
            cd = cds.get("EditGraph", 0)
            hist_e = [turn, turn - 1, turn - cd, turn - cd - 1] if "EditGraph" in cds else [turn]
            hist_e = sorted(set(hist_e)) + [None]
            second = [k for k in cds if k != "EditGraph"]
            if second:
                k2 = second[0]
                c2 = cds[k2]
                hist_2 = [None, turn - c2 + 1, turn - c2]     # absent, last turn still blocked, first turn free
            else:
                k2, hist_2 = None, [None]
            for he in hist_e:
                for h2 in hist_2:
                    last = {}
                    if he is not None:
                        last["EditGraph"] = he
                    if h2 is not None:
                        last[k2] = h2
                    out.append((cds, last, turn))
    return out


def ops_lists():
    out = [()]
    for n in (1, 2):
        out += list(itertools.product(OPS_ALPHABET, repeat=n))
    return out


def _leg_b(chunk, st: Stats, worlds, ops_all, items, plans):
    """chunk: list of (ops-list index, world index); plans: list of (subleg id, nmin, nmax, caps list)"""
    for (oi, wi) in chunk:
        op_specs = ops_all[oi]
        cds, last, turn = worlds[wi]
        for (sid, nmin, nmax, caps_list) in plans:
            for mi, ms in enumerate(multisets(range(len(items)), nmax, nmin)):
                deltas = tuple((TARGETS[items[i][0]], items[i][1], items[i][2]) for i in ms)
                for ci, caps in enumerate(caps_list):
                    st.distinct("states", (sid << 44) | (oi << 36) | (wi << 26) | (mi << 6) | ci)
                    args = (deltas, op_specs, caps, cds, last, turn, "int", "ns", "both", "plan")
                    res = run_case(*args, st=st)
                    if res:
                        _report(st, res, args)
        if (oi * 131 + wi) % 397 == 0:
            st.sample(make_case(deltas, op_specs, plans[0][3][0], cds, last, turn, "int", "ns", "both", "plan"))


def _leg_shapes(chunk, st: Stats, leg_id):
    """chunk: list of (index, full argument tuple)"""
    for (i, args) in chunk:
        st.distinct("states", (leg_id << 44) | i)
        res = run_case(*args, st=st)
        st.distinct("ctx_shapes", args[8])
        if res:
            _report(st, res, args)
        if i % 1501 == 0:
            st.sample(make_case(*args))


def _leg_coll(chunk, st: Stats, legs):
    """chunk: list of (subleg id, index, multiset of item indices); legs: id -> (items, caps list); items are
    (index into TARGETS_COLL, value)"""
    for (sid, mi, ms) in chunk:
        items, caps_list = legs[sid]
        deltas = tuple((TARGETS_COLL[items[i][0]], items[i][1], None) for i in ms)
        for ci, caps in enumerate(caps_list):
            st.distinct("states", (sid << 44) | (mi << 10) | ci)
            args = (deltas, (), caps, {}, {}, 5, "int", "ns", "both", "plan")
            res = run_case(*args, st=st)
            st.add("collation_cases")
            if res:
                _report(st, res, args)
        if mi % 1201 == 0:
            st.sample(make_case(deltas, (), caps_list[mi % len(caps_list)], {}, {}, 5, "int", "ns", "both", "plan"))


# ---------------------------------------------------------------- leg D: the result depends on nothing but its arguments
PARTIAL_T4 = [None, {}, {"novelty_cap_per_node": 0.125}, {"churn_cap_edges": 1}, {"delta_norm_cap_l2": 0.25},
              {"cooldowns": {"EditGraph": 3}}, {"novelty_cap_per_node": 1.0, "delta_norm_cap_l2": 1e9}]
POISON_T4 = [{"novelty_cap_per_node": 0.0009765625, "delta_norm_cap_l2": 0.0009765625, "churn_cap_edges": 0, "cooldowns": {"EditGraph": 9, "Speak": 9}},
             {"novelty_cap_per_node": 1.0, "delta_norm_cap_l2": 1e9, "churn_cap_edges": 64, "cooldowns": {}}]


def _raw_ctx(t4, turn=5):
    """a context whose t4 section is partial or absent (a hand-built Config / test context; missing keys take the
    documented defaults 1.5 / 0.3 / 64 / no cooldowns)"""
    cfgobj = Config() if t4 is None else Config(t4=copy.deepcopy(t4))
    if t4 is None:
        try:
            delattr(cfgobj, "t4")
        except Exception:
            cfgobj.t4 = None
    return NS(turn_id=turn, agent_id="A", config=cfgobj, cfg=cfgobj)


def _leg_history(chunk, st: Stats):
    """Every (earlier call's t4 section) x (this call's partial/absent t4 section) x plan: the outcome must be the documented
    pipeline under the documented defaults for the missing keys, whatever was filtered before in this process."""
    items = [(TARGETS[1], 0.25, 0), (TARGETS[3], -1.0, 0), (TARGETS[1], 4.0, None), (TARGETS[0], 0.5, 1)]
    for poison_i, partial_i, ms in chunk:
        deltas = tuple(items[i] for i in ms)
        t4 = PARTIAL_T4[partial_i]
        eff = dict(DEFAULT_CAPS)
        cds = {}
        if t4:
            eff["nov"] = t4.get("novelty_cap_per_node", eff["nov"])
            eff["l2"] = t4.get("delta_norm_cap_l2", eff["l2"])
            eff["churn"] = t4.get("churn_cap_edges", eff["churn"])
            cds = dict(t4.get("cooldowns", {}))
        op_specs = ("EditGraph", "Speak")
        last = {"EditGraph": 4}
        e = reference(deltas, op_specs, cds, last, 5, eff["nov"], eff["l2"], eff["churn"])
        pds = [ProposedDelta(target_kind=t[0], target_id=t[1], attr=t[2], delta=v, op_idx=o, idx=i) for i, (t, v, o) in enumerate(deltas)]
        plan = build_plan("plan", [build_op(x) for x in op_specs], list(pds))
        try:
            if poison_i is not None:
                call_impl(_raw_ctx(POISON_T4[poison_i]), build_state("dict", last), plan)
            res = call_impl(_raw_ctx(t4), build_state("dict", last), plan)
        except Exception as ex:
            st.violation("history:raises:%s" % type(ex).__name__, "t4_filter raised %r for partial t4 section %r" % (ex, t4),
                         {"kind": "history", "poison": poison_i, "partial": partial_i, "ms": list(ms)})
            continue
        st.add("transitions", 2 if poison_i is not None else 1)
        st.add("validated")
        st.add("history_cases")
        st.distinct("states", (13 << 44) | (hash((poison_i, partial_i, ms)) & 0xFFFFFFFF))
        found = envelope(res, e, {d[0] for d in deltas}, eff["nov"], eff["l2"], eff["churn"]) + [f for f in compare(res, e, eff) if f[0] != "ref:metrics"]
        st.distinct("outcomes", ("history", bool(found), len(res[0])))
        if found and not e.absorbing:
            st.violation("history:partial-t4:%s" % ("after-other-call" if poison_i is not None else "first-call"),
                         "t4 section %r (missing keys = documented defaults)%s: %s: %s" % (
                             t4, "" if poison_i is None else " after a call with t4=%r" % (POISON_T4[poison_i],), found[0][0], found[0][1]),
                         {"kind": "history", "poison": poison_i, "partial": partial_i, "ms": list(ms)})


# ---------------------------------------------------------------- driver
def run(run: Run) -> None:
    if not callable(getattr(t4mod, "t4_filter", None)):
        raise HarnessError("seam missing: clematis.engine.stages.t4.t4_filter")
    th = run.thorough
    nt = len(TARGETS)

    # ---- leg A: values x caps ------------------------------------------------------------------
    caps_all = caps_menu(th)
    caps_1 = one_dev_caps()
    caps_2 = [c for c in caps_menu(False) if c not in caps_1]
    items_full = [(ti, v) for ti in range(nt) for v in VALUES_FULL]
    sublegs = {}
    work = []
    if th:
        sublegs[1] = (items_full, caps_all)
        work += [(1, mi, ms) for mi, ms in enumerate(multisets(range(len(items_full)), 3))]
        items4 = [(ti, v) for ti in range(nt) for v in VALUES_N4]
        sublegs[2] = (items4, caps_1 + [dict(DEFAULT_CAPS, l2=INF)])
        work += [(2, mi, ms) for mi, ms in enumerate(multisets(range(len(items4)), 4, 4))]
        a_desc = ("every multiset of <=3 deltas over 4 targets x 14 values {0,+-2^-20,+-1/4,+-1/2,+-1,+-4,5e-324,+-1e300} x "
                  "every caps setting with <=2 deviations (%d); every multiset of exactly 4 deltas over 4 targets x 7 values "
                  "{0,2^-20,+-1/4,1/2,-1,4} x caps with <=1 deviation (%d)" % (len(caps_all), len(sublegs[2][1])))
    else:
        items_q3 = [(ti, v) for ti in range(nt) for v in VALUES_QUICK3]
        items_r3 = [(ti, v) for ti in range(nt) for v in VALUES_R3]
        sublegs[1] = (items_full, caps_all)
        work += [(1, mi, ms) for mi, ms in enumerate(multisets(range(len(items_full)), 2))]
        sublegs[2] = (items_q3, caps_1)
        work += [(2, mi, ms) for mi, ms in enumerate(multisets(range(len(items_q3)), 3, 3))]
        sublegs[3] = (items_r3, caps_2)
        work += [(3, mi, ms) for mi, ms in enumerate(multisets(range(len(items_r3)), 3, 3))]
        a_desc = ("every multiset of <=2 deltas over 4 targets x 14 values {0,+-2^-20,+-1/4,+-1/2,+-1,+-4,5e-324,+-1e300} x "
                  "every caps setting with <=2 deviations (%d); every multiset of exactly 3 deltas over 4 targets x 12 values "
                  "(as before without -2^-20,-4) x caps with <=1 deviation (%d) and over 4 targets x 6 values "
                  "{0,2^-20,+-1/4,1/2,-1} x caps with exactly 2 deviations (%d)" % (len(caps_all), len(caps_1), len(caps_2)))
    run.pmap(_leg_a, work, extra=(sublegs,), chunks=NCHUNKS)
    run.notes["legA_multisets"] = len(work)
    run.notes["caps_settings_le2_deviations"] = len(caps_all)

    # ---- leg B: cooldowns ----------------------------------------------------------------------
    worlds = cooldown_worlds()
    b_items = [(ti, v, o) for ti in (1, 3) for v in (0.25, 1.0) for o in (None, 0, 1)]
    if th:
        plans = [(5, 0, 2, caps_1), (6, 3, 3, [dict(DEFAULT_CAPS)])]
    else:
        plans = [(5, 0, 2, [dict(DEFAULT_CAPS), dict(DEFAULT_CAPS, churn=1)])]
    ol = ops_lists()
    pairs = [(oi, wi) for oi in range(len(ol)) for wi in range(len(worlds))]
    run.pmap(_leg_b, pairs, extra=(worlds, ol, b_items, plans), chunks=NCHUNKS)
    run.notes["legB_ops_lists"] = len(ol)
    run.notes["legB_cooldown_worlds"] = len(worlds)
    run.notes["legB_delta_multisets"] = sum(1 for p in plans for _ in multisets(range(len(b_items)), p[2], p[1]))

    # ---- leg B2: accessor shapes (state / turn id type / plan shape) ---------------------------
    small_items = [(1, 0.25, None), (1, 0.25, 0), (3, 1.0, 1), (1, 1.0, 1)]
    small_ms = list(multisets(range(len(small_items)), 2))
    shapes = []
    small_worlds = [w for w in worlds if w[0] in ({"EditGraph": 2}, {"EditGraph": 2, "CreateGraph": 10})]
    for op_specs in [(), ("EditGraph",), ("Speak", "EditGraph"), ("dict:EditGraph", "CreateGraph")]:
        for (cds, last, turn) in small_worlds:
            for ms in small_ms:
                deltas = tuple((TARGETS[small_items[i][0]], small_items[i][1], small_items[i][2]) for i in ms)
                for state_shape in state_shapes(not last):
                    for turn_type in ("int", "str"):
                        for plan_shape in ("plan", "dict"):
                            shapes.append((deltas, op_specs, dict(DEFAULT_CAPS), cds, last, turn, turn_type, state_shape,
                                           "both", plan_shape))
    run.pmap(_leg_shapes, list(enumerate(shapes)), extra=(8,), chunks=NCHUNKS)
    run.notes["legB2_cases"] = len(shapes)
    run.notes["legB2_state_shapes"] = "%d with a history, %d for an empty history" % (len(state_shapes(False)), len(state_shapes(True)))

    # ---- leg C: context shapes -----------------------------------------------------------------
    c_items = [(1, 0.25, 0), (3, -1.0, 0), (1, 4.0, None)]
    c_ms = list(multisets(range(len(c_items)), 2))
    c_cases = []
    c_worlds = [({}, {}, 5), ({"EditGraph": 2}, {"EditGraph": 4}, 5), ({"EditGraph": 2}, {"EditGraph": 3}, 5)]
    for caps in caps_all:
        for (cds, last, turn) in c_worlds:
            for ms in c_ms:
                deltas = tuple((TARGETS[c_items[i][0]], c_items[i][1], c_items[i][2]) for i in ms)
                for shape in CTX_SHAPES:
                    tt = "str" if shape.startswith("cfg-only") else "int"
                    c_cases.append((deltas, ("EditGraph",), caps, cds, last, turn, tt, "dict", shape, "plan"))
    run.pmap(_leg_shapes, list(enumerate(c_cases)), extra=(9,), chunks=NCHUNKS)
    run.notes["legC_cases"] = len(c_cases)
    run.notes["legC_ctx_shapes"] = len(CTX_SHAPES)

    # ---- leg D: history independence with partial / absent t4 sections ---------------------------
    d_cases = [(po, pa, ms) for po in (None, 0, 1) for pa in range(len(PARTIAL_T4)) for ms in multisets(range(4), 3)]
    run.pmap(_leg_history, d_cases, chunks=8)
    run.notes["legD_cases"] = len(d_cases)

    # ---- leg E: collation of the canonical key ------------------------------------------------------
    e_items = [(ti, v) for ti in range(len(TARGETS_COLL)) for v in VALUES_COLL]
    e_legs = {14: (e_items, (caps_1 + [c for c in COLL_CAPS_QUICK if c not in caps_1]) if th else COLL_CAPS_QUICK)}
    e_work = [(14, mi, ms) for mi, ms in enumerate(multisets(range(len(e_items)), 3))]
    if th:
        e_items4 = [(ti, v) for ti in range(len(TARGETS_COLL)) for v in (0.25, -0.25)]
        e_legs[15] = (e_items4, [dict(DEFAULT_CAPS), dict(DEFAULT_CAPS, churn=1), dict(DEFAULT_CAPS, churn=2)])
        e_work += [(15, mi, ms) for mi, ms in enumerate(multisets(range(len(e_items4)), 4, 4))]
    run.pmap(_leg_coll, e_work, extra=(e_legs,), chunks=NCHUNKS)
    run.notes["legE_multisets"] = len(e_work)
    run.notes["legE_targets_in_canonical_order"] = [keystr(t) for t in TARGETS_COLL]
    run.notes["legE_collations_told_apart_from_canonical"] = sorted(ALT_COLLATIONS)

    run.rule = (
        "A (no ops): %s; caps alphabet novelty {2^-20,0.3,1}, L2 {2^-10,0.3,1.5,1e9%s}, churn {0,1,2,64}.  "
        "B: every ops list of <=2 ops over {Speak,EditGraph,CreateGraph,dict-op} (21) x 7 cooldown menus x last-turn "
        "histories {absent,t,t-1,t-cd,t-cd-1} x turn {0,5} (%d worlds) x %s.  B2: the 40 worlds of the menus {EditGraph:2} and {EditGraph:2,CreateGraph:10} x 4 ops "
        "lists x every multiset of <=2 of 4 deltas x container shape of each level of state.meta.cooldowns independently "
        "(state {object,dict,attribute-dict} x meta {object,dict,attribute-dict} = 9; for an empty history also meta "
        "{missing,None} and cooldowns {missing,None}: 33) x turn id {int,str} x plan {Plan,dict}.  C: %d context shapes "
        "(config offered as ctx.config / ctx.cfg / both x root {Config dataclass, attribute-dict, plain dict} + declared "
        "TurnCtx) x all caps settings x 3 cooldown worlds.  E (key collation, no ops): %s over 9 targets whose canonical key "
        "string order differs from tuple / natural-numeric / case-folded / attr-major / shortest-id-first order (ids n:1, "
        "n:10, n:1a, n:2, n:B, n:a, n:a-b, an edge, attrs weight+label) x values {+-1/4,1}%s.  Every case = canonical "
        "ordering + every other distinct permutation of the delta list (each compared with the Fraction reference pipeline "
        "through the first result and envelope-checked) + repeat call with fresh junk-laden ctx/state.  non-trivial = some "
        "stage acted (a reason reported / op blocked) or duplicate targets or ops present"
        % (a_desc, ",inf" if th else "", len(worlds),
           ("every multiset of <=2 deltas over 2 targets x {1/4,1} x op_idx {None,0,1} x caps with <=1 deviation (%d), "
            "every multiset of exactly 3 such deltas x default caps" % len(caps_1)) if th else
           "every multiset of <=2 deltas over 2 targets x {1/4,1} x op_idx {None,0,1} x caps {default, churn=1}",
           len(CTX_SHAPES),
           "every multiset of <=3 deltas" if not th else "every multiset of <=3 deltas (and of exactly 4 over values {+-1/4} x caps {default, churn 1, churn 2})",
           " x %d caps settings that cut at exact ties (churn 1/2, alone and with a saturating novelty cap / L2 scaling)" % len(e_legs[14][1])))
    run.assume("Float absorption when duplicates of incomparable magnitude are merged (1e300 + 0.25 - 1e300 on one target) "
               "makes any one-by-one float summation order dependent; multisets whose per-target sub-sums are not all exactly "
               "representable are executed and envelope/purity-checked, but reference/permutation mismatches there are counted "
               "(float_absorption_mismatches_not_judged), not judged. Order independence is decided bit-for-bit on the dyadic rest.")
    run.assume("Cooldown semantics taken from the documented behaviour: an op of kind K is in cooldown iff t4.cooldowns[K] > 0, "
               "state.meta.cooldowns[K] = L is recorded and turn - L < cooldown; last turns in the future and non-integer "
               "last turns are outside the alphabet.")
    run.assume("The cooldown history is the mapping reachable as state.meta.cooldowns, where each of the two levels may be read "
               "attribute-style or mapping-style independently of the other (t4.py: 'Try object.attr then dict-style fallbacks'; "
               "restored snapshots hang dict metas on state objects); a missing / None level means no history.  A failure that "
               "the filter's own outcome for the same history in the object/object shape does not share is reported once "
               "per shape as state-shape:*.")
    run.assume("A merged duplicate carries the smallest op index of its contributors (documented provenance rule); whether a "
               "blocked op's contribution may survive inside a merged delta owned by a lower-indexed free op is not judged "
               "(counted as obs_blocked_contribution_survives_by_min_op_idx).")
    run.assume("The canonical key of a target is the documented identity string 'kind:id:attr' (t4.py _canonical_key, 'stable "
               "identity across all steps'); 'canonical target order' and the churn tie-break 'by canonical key ascending' mean "
               "ascending order of that string (code-point order of Python str).  Legs A-D use targets on which string order "
               "and (kind,id,attr) tuple order agree; leg E uses targets on which they (and natural-numeric, case-folded, "
               "attr-major, shortest-id-first orders) differ, so a re-keyed implementation that collates differently is "
               "reported as envelope:order / ref:approved-targets.  Colliding canonical keys of distinct targets (':' inside "
               "attr) and non-ASCII ids are outside the alphabet.")
    run.assume("t1/t2/utter arguments are fixed (None/None/'utter'); both ctx.cfg and ctx.config carry the same object in "
               "legs A/B; DELTA_NORM_HIGH is optional within 2e-6 of the cap; metrics compared only for keys present.")


def replay(case):
    if case.get("kind") == "history":
        st = Stats()
        _leg_history([(case["poison"], case["partial"], tuple(case["ms"]))], st)
        return [(sg, w) for sg, (w, _c) in st.viol.items()]
    deltas = tuple(((d[0], d[1], d[2]), float(d[3]), d[4]) for d in case["deltas"])
    caps = {"nov": float(case["caps"]["nov"]), "l2": float(case["caps"]["l2"]), "churn": int(case["caps"]["churn"])}
    cds = {str(k): int(v) for k, v in case["cooldowns"].items()}
    last = {str(k): int(v) for k, v in case["last"].items()}
    return run_case(deltas, tuple(case["ops"]), caps, cds, last, int(case["turn"]), case["turn_type"],
                    case["state_shape"], case["ctx_shape"], case["plan_shape"], st=None)
