"""C04 — apply hands the store exactly the approved deltas once, version discipline, cadence, kill switch.

Engine E1 (all histories of <= d turns over a per-turn alphabet) x E4 (store fault plans).

Per-turn alphabet: committed(approved list, store fault plan) | kill-switch turn (run_turn entry only).
  approved list  in {[], [d1], [d1,d2], [d1,d2,d3]}  (canonical order, as the meta-filter emits them)
  fault plan     in {ok, ok-without-reporting-counts} + {batch raises and S of the per-delta calls raise : S subset of approved}
  store capability (own leg, see cap_alphabet): the state's store for that turn offers the batch API (above) | is a
                 read-only view without `apply_deltas` | carries a non-callable `apply_deltas` | is None | key missing
Settings: snapshot cadence n in {1,2,3} x cache_bust_mode in {on-apply, none} x namespaces x initial version x ctx shape
  x key-presence shape of the t4 section (every key explicit | keys missing, the section then denotes its validated
  normal form: see absent_menu).
  store export shape + faults of the OTHER store calls (own leg, see xfault_*): the store offers only the `.w` view | offers
                 export_state()/import_state(); every store method call other than apply_deltas that the engine makes
                 during the apply phase of a committed turn is numbered and made to raise, one at a time and all at once
  acting agent   (own leg, see agent_*): the turns of one history are taken by several agent ids sharing ONE state, with
                 the orchestrator's boot hook live and the snapshots of earlier turns left in the snapshot directory
Entry points: clematis.engine.apply.apply_changes directly, and the full run_turn with the meta-filter's
result scripted through the orchestrator's module-level `t4_filter` seam.

The store is a recording double whose batch call is all-or-nothing (the hypothesis of the property).
Oracle = reference model of the call log + version/snapshot/cache/log-record invariants (see `_check_turn`).
"""
from __future__ import annotations

import itertools
import json
import os
import shutil
import types

from mc.runner import Run, Stats, HarnessError
from mc import world as W

from clematis.engine import apply as apply_mod
from clematis.engine.cache import CacheManager
from clematis.engine.orchestrator import core as orch_core
from clematis.engine.types import ProposedDelta, T4Result
from clematis.graph.store import InMemoryGraphStore

if not hasattr(orch_core, "t4_filter"):
    raise HarnessError("seam missing: orchestrator.core.t4_filter")

EXC_TYPES = [RuntimeError, KeyError, OSError]


# target ids chosen so that the canonical order of the meta-filter (order of the joined string "kind:id:attr") differs from
# the field-wise tuple order: "node:a10:weight" < "node:a1:weight" < "node:a:weight"
_IDS = {1: "a10", 2: "a1", 3: "a"}


def D(i):
    return ProposedDelta(target_kind="node", target_id=_IDS[i], attr="weight", delta=0.25 * i, op_idx=None, idx=i)


def dkey(d):
    return "%s:%s:%s" % (d.target_kind, d.target_id, d.attr)


_DELTA_OF = {dkey(D(i)): float(D(i).delta) for i in _IDS}


class RecStore(InMemoryGraphStore):
    """All-or-nothing batch store that records every call and follows a scripted fault plan."""

    def __init__(self):
        super().__init__()
        self.w = {}
        self.calls = []      # (turn, [keys], outcome)
        self.applied = []    # (turn, key)
        self.turn = None
        self.plan = ("ok",)
        self._ncalls_turn = 0
        self.phase = False   # True while the engine is in the apply phase of a committed turn
        self.xplan = None    # None | "all" | [k, ...]: numbers of the OTHER store calls of this turn that raise
        self.xcalls = []     # (turn, method name, number within the turn, raised?)
        self._xn = 0

    def begin(self, turn, plan, xplan=None):
        self.turn = turn
        self.plan = plan
        self.xplan = xplan
        self.phase = False
        self._ncalls_turn = 0
        self._xn = 0

    def _xcall(self, name):
        """one store method call other than apply_deltas made by the engine during the apply phase"""
        k = self._xn
        self._xn += 1
        fire = self.xplan == "all" or (isinstance(self.xplan, list) and k in self.xplan)
        self.xcalls.append((self.turn, name, k, bool(fire)))
        if fire:
            raise EXC_TYPES[(int(self.turn or 0) + k) % len(EXC_TYPES)]("scripted %s failure" % name)

    def apply_deltas(self, gid, deltas):
        deltas = list(deltas)
        keys = [dkey(d) for d in deltas]
        first = self._ncalls_turn == 0
        self._ncalls_turn += 1
        exc = EXC_TYPES[(int(self.turn or 0) + self._ncalls_turn) % len(EXC_TYPES)]
        if self.plan[0] == "batchfail":
            if first:
                self.calls.append((self.turn, gid, keys, "raise"))
                raise exc("scripted batch failure")
            if any(k in self.plan[1] for k in keys):
                self.calls.append((self.turn, gid, keys, "raise"))
                raise exc("scripted per-delta failure")
        for d in deltas:
            k = (d.target_kind, d.target_id, d.attr)
            self.w[k] = self.w.get(k, 0.0) + float(d.delta)
            self.applied.append((self.turn, dkey(d)))
        self.calls.append((self.turn, gid, keys, "ok"))
        if self.plan[0] == "okquiet":
            return None  # a store that succeeds without reporting counts
        return {"edits": len(deltas), "clamps": 0}


_REC_OWN = ("apply_deltas", "begin")


class RecStoreX(RecStore):
    """The recording store with the structured export/import API the snapshot writer prefers over the `.w` view.
    Every public method the engine calls on it while `phase` is on (apply_deltas has its own scripted plan) goes
    through `_xcall`: numbered, recorded, raising when scripted."""

    def export_state(self):
        return {"w": [[k[0], k[1], k[2], v] for k, v in sorted(self.w.items())]}

    def import_state(self, st):
        new = {(str(a), str(b), str(c)): float(v) for a, b, c, v in (st or {}).get("w", [])}
        self.w.clear()
        self.w.update(new)

    def __getattribute__(self, name):
        v = object.__getattribute__(self, name)
        if name.startswith("_") or name in _REC_OWN or not callable(v) or not object.__getattribute__(self, "phase"):
            return v
        xcall = object.__getattribute__(self, "_xcall")

        def numbered(*a, **k):
            xcall(name)
            return v(*a, **k)
        return numbered


class StoreView:
    """The recording store seen through a view that offers everything EXCEPT a usable batch write API (a read-only
    replica: graphs, `.w`, export_state() stay reachable, so T1/T2 and the snapshot writer work as usual).
    variant "absent": no `apply_deltas` attribute at all;  "noncallable": the attribute exists and is None."""

    def __init__(self, inner, variant):
        object.__setattr__(self, "_inner", inner)
        if variant == "noncallable":
            object.__setattr__(self, "apply_deltas", None)

    def __getattr__(self, name):
        if name == "apply_deltas" or name == "_inner" or (name.startswith("__") and name.endswith("__")):
            raise AttributeError(name)
        return getattr(object.__getattribute__(self, "_inner"), name)


# ---- store capability of a committed turn -------------------------------------------------------------------
# The statement's version / cadence / no-abort clauses hold for EVERY committed turn, whatever the state's store can do.
# Besides the store with the batch API the engine documents two more situations ("nothing to apply" when the state
# has no store, "no known API" when the store has no callable apply_deltas).  Letters ("noapi", variant):
#   absent | noncallable : StoreView above;  nostore : state["store"] is None;  nokey : the state has no "store" key.
# Decided on such a turn: no exception escapes, version +1 exactly, ApplyResult agrees with the state, snapshot iff
# cadence, t4/apply records emitted once, nothing is invalidated that is not configured / when busting is off, the
# recording store receives no call.  NOT decided: whether the configured namespaces are invalidated (nothing was
# handed to a store; the statement ties invalidation to the apply) - either behaviour is accepted.
CAP_VARIANTS = ["absent", "noncallable", "nostore", "nokey"]


def cap_alphabet(entry, thorough):
    """-> (base letters, capability letters).  Base = a small slice of the main alphabet (clean commit, batch fault,
    partial per-delta fault, kill switch) so that capability turns are interleaved with ordinary ones."""
    k1 = dkey(D(1))
    base = [("commit", [], ("ok",)), ("commit", [1], ("ok",)), ("commit", [1], ("batchfail", [])),
            ("commit", [1, 2], ("batchfail", [k1]))]
    if entry == "turn":
        base.append(("kill", [], ("ok",)))
    variants = CAP_VARIANTS if thorough else CAP_VARIANTS[:3]
    if entry == "turn":
        variants = [v for v in variants if v != "nokey"]    # run_turn's stages index state["store"] themselves
    lists = [[], [1, 2]]
    caps = [("commit", ids, ("noapi", v)) for v in variants for ids in lists]
    return base, caps


def cap_settings(entry, thorough):
    shapes = ["both", "cfg", "config"] if entry == "direct" else ["both", "cfg"]
    for n in (1, 2, 3):
        for bust in ("on-apply", "none"):
            for v in (None, "41"):
                for sh in shapes:
                    yield {"n": n, "bust": bust, "ns": "default", "ver": v, "shape": sh, "ids": [1, 1]}


def cap_histories(entry, thorough):
    """every history of <=2 (thorough: <=3) turns over base+capability letters holding >=1 capability letter"""
    base, caps = cap_alphabet(entry, thorough)
    alpha = base + caps
    for d in range(1, (3 if thorough else 2) + 1):
        for h in itertools.product(alpha, repeat=d):
            if any(x[2][0] == "noapi" for x in h):
                yield [list(x) for x in h]


# ---- store export shape + faults of the other store calls ---------------------------------------------------
# "Errors inside the store never abort the turn or skip the version bump" quantifies over the store, not over one of
# its methods.  Which store methods the apply phase calls besides apply_deltas depends on what the store offers (the
# snapshot writer documents: "Prefers store.export_state(), else inspects a `.w` dict"), so the store shape is a
# dimension (settings["store"]: "plain" = `.w` view only | "exporter" = RecStoreX) and the fault points are DISCOVERED:
# a base history is run without such faults on the exporter store, the store numbers every other method call the engine
# makes between the meta-filter's verdict and the end of the turn (direct entry: during apply_changes), and for every
# numbered call (turn i, k) the history is re-run with exactly that call raising, plus once with all of them raising.
# A letter carries the plan as 4th element {"xf": [k, ...] | "all"}.  Expected behaviour on such a turn = that of the
# same turn without the fault (call log, version +1, cadence, cache, records, nothing escapes): the statement exempts
# no store error, and the content of the snapshot's store section is not judged.
def xfault_alphabet(entry, thorough):
    k1 = dkey(D(1))
    a = [("commit", [], ("ok",)), ("commit", [1], ("ok",)), ("commit", [1], ("batchfail", [])),
         ("commit", [1, 2], ("batchfail", [k1]))]
    if thorough:
        a += [("commit", [1, 2], ("ok",)), ("commit", [1], ("okquiet",))]
    if entry == "turn":
        a.append(("kill", [], ("ok",)))
    return a


def _n_ids(thorough):
    """(cadence n, [first turn id, stride]): histories starting at turn 1 and at a cadence turn"""
    out = []
    for n in (1, 2, 3):
        for ids in ([1, 1], [n, 1]):
            if (n, ids) not in out:
                out.append((n, ids))
    return out


def _shape_bust(entry, thorough):
    """(ctx shape, cache_bust_mode) pairs of the legs below.  A cfg-only context with on-apply is left to the main legs:
    it is the listed finding there (apply reads ctx.config only) and would only repeat itself under new signatures."""
    out = [("both", "on-apply"), ("cfg", "none")]
    if entry == "direct":
        out.append(("config", "on-apply"))
    if thorough:
        out.append(("both", "none"))
    return out


def xfault_settings(entry, thorough):
    for n, ids in _n_ids(thorough):
        for sh, bust in _shape_bust(entry, thorough):
            yield {"n": n, "bust": bust, "ns": "default", "ver": "41", "shape": sh, "ids": ids, "store": "exporter"}


def xfault_histories(entry, thorough):
    alpha = xfault_alphabet(entry, thorough)
    for d in range(1, (3 if thorough else 2) + 1):
        for h in itertools.product(alpha, repeat=d):
            yield [list(x) for x in h]


# ---- acting agent -------------------------------------------------------------------------------------------
# "For all sequences of turns": the turns of a history need not belong to one agent.  Several agent ids share ONE state
# (one store, one version, one snapshot directory with a state_<agent>.json each), which is how the orchestrator's
# drivers run agents.  In this leg nothing is prepared behind the engine's back: the boot hook is live (the state does
# not carry _boot_loaded; the snapshot directory is empty when the history starts, so the scripted initial version
# stands) and snapshot files written by earlier turns stay where they are ("written this turn" = the acting agent's
# file changed identity).  Agent sequences are enumerated up to renaming (restricted growth strings: A, AA, AB, AAA,
# AAB, ABA, ABB, ABC ...).  Judged per turn exactly as everywhere else, plus: store contents after a committed turn =
# contents before + the deltas the store accepted; on a kill-switch turn the whole snapshot directory is untouched.
def agent_sequences(d, max_agents):
    names = "ABCDEFGH"

    def rec(prefix, used):
        if len(prefix) == d:
            yield prefix
            return
        for i in range(min(used + 1, max_agents)):
            yield from rec(prefix + names[i], max(used, i + 1))
    return list(rec("A", 1)) if d >= 1 else []


def agent_alphabet():
    k1 = dkey(D(1))
    return [("commit", [], ("ok",)), ("commit", [1], ("ok",)), ("commit", [1, 2], ("batchfail", [k1])), ("kill", [], ("ok",))]


def agent_histories(thorough):
    alpha = agent_alphabet()
    for d in range(1, (4 if thorough else 3) + 1):
        for seq in agent_sequences(d, 3 if thorough else 2):
            for h in itertools.product(alpha, repeat=d):
                yield [[x[0], x[1], x[2], {"agent": a}] for x, a in zip(h, seq)]


def agent_settings(thorough):
    for n, ids in _n_ids(thorough):
        for sh, bust in _shape_bust("turn", False):
            for store in ("plain", "exporter"):
                yield {"n": n, "bust": bust, "ns": "default", "ver": "41", "shape": sh, "ids": ids,
                       "store": store, "boot": "live"}


def _letter(h):
    """history letter -> (kind, ids, plan, options)"""
    return h[0], h[1], h[2], (h[3] if len(h) > 3 and h[3] else {})


def turn_alphabet(max_n, with_kill):
    out = []
    for n in range(0, max_n + 1):
        ids = list(range(1, n + 1))
        out.append(("commit", ids, ("ok",)))
        if n in (1, max_n):
            out.append(("commit", ids, ("okquiet",)))
        keys = [dkey(D(i)) for i in ids]
        for r in range(0, n + 1):
            for sub in itertools.combinations(keys, r):
                out.append(("commit", ids, ("batchfail", sorted(sub))))
    if with_kill:
        out.append(("kill", [], ("ok",)))
    return out


# the validator admits only t2:semantic; "raw3" is an unvalidated config (apply_changes itself accepts any list) whose
# first namespace was never created in the manager
NS_MENU = {"default": ["t2:semantic"], "none": [], "raw3": ["zzz:never-created", "t2:semantic", "other:ns"]}


# ---- presence shape of the t4 keys the property talks about -------------------------------------------------
# A t4 section that did not go through configs/validate.py (built by hand, the shape tests / demos / embedding code
# use) may simply lack a key.  The configuration it denotes is its validated normal form: the repository documents one
# default per key (configs/validate.py DEFAULTS + _validate, clematis/engine/types.py default config, the fallbacks
# spelled out in apply._get_cfg / "Default True if unspecified" in the orchestrator).  The settings entry "absent"
# lists the key paths removed from the t4 section AFTER validation; the oracle keeps using the values of the normal
# form (`eff` in _cfg_for).  Key paths: "cache.namespaces" (section present, key missing), "cache.*" (section present
# and empty), "cache" (no section), "snapshot_every_n_turns", "cache_bust_mode", "enabled".
# cache_bust_mode is the one key whose documented default (validator: on-apply) and engine fallback (none) disagree on
# the unchanged tree, and the statement does not say whether busting is "on" then: the cache clauses are not decided
# for settings where that key is absent (all other clauses are).
_CACHE_SHAPES = [None, "cache.namespaces", "cache.*", "cache"]
_SCALAR_KEYS = ["snapshot_every_n_turns", "cache_bust_mode", "enabled"]


def absent_menu(entry, thorough):
    """Non-empty sets of absent key paths.  thorough: every combination (cache shape x subset of scalar keys);
    quick: every single key path + the bare section (everything absent)."""
    scal = [k for k in _SCALAR_KEYS if not (entry == "direct" and k == "enabled")]  # apply_changes never reads `enabled`
    out = []
    if thorough:
        for cs in _CACHE_SHAPES:
            for r in range(0, len(scal) + 1):
                for sub in itertools.combinations(scal, r):
                    a = ([cs] if cs else []) + list(sub)
                    if a:
                        out.append(a)
    else:
        out = [[cs] for cs in _CACHE_SHAPES if cs] + [[k] for k in scal] + [["cache"] + scal]
    return out


def absent_settings(entry, thorough):
    shapes = ["both", "cfg", "config"] if entry == "direct" else ["both", "cfg"]
    for ab in absent_menu(entry, thorough):
        ns_free = not any(a.startswith("cache") for a in ab)        # namespaces still explicit
        busts = ["on-apply", "none"] if "cache_bust_mode" not in ab else ["on-apply"]
        ns_list = (["default", "none"] if thorough else ["default"]) if ns_free else ["default"]
        n_list = ([2, 3] if thorough else [2]) if "snapshot_every_n_turns" not in ab else [1]
        for bust in busts:
            for ns in ns_list:
                for n in n_list:
                    for sh in shapes:
                        yield {"n": n, "bust": bust, "ns": ns, "ver": "41", "shape": sh, "ids": [1, 1], "absent": list(ab)}


def settings_menu(entry, thorough):
    shapes = ["both", "cfg", "config"] if entry == "direct" else ["both", "cfg"]
    vers = [None, "0", "41"] if (thorough or entry == "direct") else [None, "41"]
    nss = ["default", "none"]
    for n in (1, 2, 3):
        for bust in ("on-apply", "none"):
            for ns in nss:
                for v in vers:
                    for sh in shapes:
                        yield {"n": n, "bust": bust, "ns": ns, "ver": v, "shape": sh, "ids": [1, 1]}
    if entry == "direct":
        for bust in ("on-apply", "none"):
            for sh in shapes:
                yield {"n": 1, "bust": bust, "ns": "raw3", "ver": "0", "shape": sh, "ids": [1, 1]}
    # turn ids are the caller's: start at a cadence turn and skip (2, 5, 8 ...): a cadence rule that keeps memory of the
    # last snapshot instead of using turn % n shows up here
    for n in (2, 3):
        for sh in shapes:
            yield {"n": n, "bust": "on-apply", "ns": "default", "ver": "41", "shape": sh, "ids": [n, n + 1]}


def _cfg_for(st, snap_dir, enabled=True):
    """-> (cfg, eff): cfg as handed to the engine, eff = the configuration it denotes (values of the validated normal
    form: n, bust (None = not decided, key absent), ns)."""
    ns = list(NS_MENU[st["ns"]])
    absent = list(st.get("absent") or [])
    t4 = {"enabled": enabled, "snapshot_every_n_turns": st["n"], "cache_bust_mode": st["bust"],
          "cache": {"namespaces": ns if st["ns"] != "raw3" else ["t2:semantic"]}}
    # the normal form is computed from the section WITHOUT the absent keys: the repository's validator fills them in
    for a in absent:
        if a in ("cache.namespaces", "cache.*"):
            t4["cache"].pop("namespaces", None)
        elif a == "enabled":
            if enabled:                      # a kill-switch turn always says enabled: false explicitly
                t4.pop("enabled", None)
        else:
            t4.pop(a, None)
    cfg = W.make_cfg({"t4": t4}, snap_dir=snap_dir)
    c4 = cfg["t4"]
    eff = {"n": int(c4["snapshot_every_n_turns"]), "ns": [str(x) for x in c4["cache"]["namespaces"]],
           "bust": None if "cache_bust_mode" in absent else str(c4["cache_bust_mode"])}
    if st["ns"] == "raw3":
        c4["cache"]["namespaces"] = ns   # not validator-accepted: direct apply_changes entry only
        eff["ns"] = ns
    for a in absent:
        if a == "cache.namespaces":
            c4["cache"].pop("namespaces", None)
        elif a == "cache.*":
            c4["cache"] = type(c4)()
        elif a == "enabled":
            if enabled:
                c4.pop("enabled", None)
        else:
            c4.pop(a, None)
    return cfg, eff


def _seed_cache(state):
    cm = CacheManager(max_entries=64, ttl_sec=10 ** 6)
    for ns in ("t2:semantic", "other:ns", "third:ns"):
        cm.set(ns, ("seed", ns), "v")
    state["_cache_mgr"] = cm
    return cm


def _ns_has_seed(cm, ns):
    obj = cm._ns.get(ns)
    return obj is not None and ("seed", ns) in obj._d


def _ns_size(cm, ns):
    obj = cm._ns.get(ns)
    return 0 if obj is None else obj.size()


def _expected_calls(ids, plan):
    keys = [dkey(D(i)) for i in ids]
    if plan[0] == "noapi":
        return [[]]      # the recording store is not reachable through a batch API on this turn
    if plan[0] in ("ok", "okquiet"):
        return [[(keys, "ok")]] + ([[]] if not keys else [])
    exp = [(keys, "raise")] + [([k], "raise" if k in plan[1] else "ok") for k in keys]
    alts = [exp]
    if not keys:
        alts.append([])
    return alts


def _count_lines(path):
    try:
        with open(path, "rb") as f:
            return f.read().count(b"\n")
    except FileNotFoundError:
        return 0


def _dir_sig(d):
    """identity of every file in the snapshot directory: name -> (inode, mtime_ns, size)"""
    out = {}
    for fn in sorted(os.listdir(d)):
        try:
            s = os.stat(os.path.join(d, fn))
        except FileNotFoundError:
            continue
        out[fn] = (s.st_ino, s.st_mtime_ns, s.st_size)
    return out


def run_history(case, scratch):
    """case: {entry, settings, history:[(kind, ids, plan[, options])]}; returns (list of (sig, what), final, xcalls)."""
    entry, st, hist = case["entry"], case["settings"], case["history"]
    out = []
    W.reset_globals()
    ex = W.Exec(scratch, "c04")
    ex.activate()
    old_t4 = orch_core.t4_filter
    shape_cls = "cfg-only" if st["shape"] == "cfg" else "any"
    cap = {"cls": None}     # class of the turn being judged (None = plain turn on a store with the batch API)
    live_boot = st.get("boot") == "live"

    def bad(clause, what):
        if cap["cls"]:
            clause = "%s[%s]" % (clause, cap["cls"])
        out.append(("%s:%s:ctx-shape=%s" % (entry, clause, shape_cls),
                    "%s [entry=%s settings=%s history=%s]" % (what, entry, json.dumps(st), json.dumps(hist))))

    store = None
    try:
        cfg_on, eff = _cfg_for(st, ex.snap_dir, True)
        cfg_off, _ = _cfg_for(st, ex.snap_dir, False)
        state = W.make_world("W1") if entry == "turn" else {"active_graphs": []}
        store = RecStoreX() if st.get("store") == "exporter" else RecStore()
        if entry == "turn":
            # keep the graphs of W1 so T1/T2/T3 do real work
            store._graphs = state["store"]._graphs
        state["store"] = store
        state.pop("version_etag", None)
        if st["ver"] is not None:
            state["version_etag"] = st["ver"]
        cm = _seed_cache(state)
        if not live_boot:
            state["_boot_loaded"] = True  # the boot loader is C06/C20's subject; keep the initial version as scripted
        id0, stride = st.get("ids", [1, 1])
        seen_agents = []
        for turn, h in ((id0 + i * stride, h) for i, h in enumerate(hist)):
            kind, ids, plan, opt = _letter(h)
            agent = str(opt.get("agent") or "A")
            xplan = opt.get("xf")
            snap_name = "state_%s.json" % agent
            snap_file = os.path.join(ex.snap_dir, snap_name)
            if plan[0] == "noapi":
                plan = ("noapi", str(plan[1]))
            else:
                plan = tuple(plan) if plan[0] in ("ok", "okquiet") else ("batchfail", list(plan[1]))
            noapi = plan[1] if plan[0] == "noapi" else None
            cap["cls"] = None if noapi is None else ("store=no-batch-api" if noapi in ("absent", "noncallable") else "store=none")
            if cap["cls"] is None and xplan is not None:
                cap["cls"] = "store-call-fault"
            if cap["cls"] is None and seen_agents and agent not in seen_agents:
                cap["cls"] = "agent-first-turn"     # a further agent's first turn on the shared state
            if agent not in seen_agents:
                seen_agents.append(agent)
            approved = [D(i) for i in ids]
            store.begin(turn, plan, xplan)
            ncalls0 = len(store.calls)
            napplied0 = len(store.applied)
            nx0 = len(store.xcalls)
            ver0 = state.get("version_etag")
            w0 = dict(store.w)
            if not live_boot:
                for p in (snap_file, snap_file + ".meta"):
                    if os.path.exists(p):
                        os.unlink(p)
            snaps0 = _dir_sig(ex.snap_dir)
            for ns in ("t2:semantic", "other:ns", "third:ns"):
                cm.set(ns, ("seed", ns), "v")
            t4_lines0 = _count_lines(os.path.join(ex.log_dir, "t4.jsonl"))
            ap_lines0 = _count_lines(os.path.join(ex.log_dir, "apply.jsonl"))
            t4res = T4Result(approved_deltas=list(approved), rejected_ops=[], reasons=[],
                             metrics={"counts": {"approved": len(approved)}})
            cfg = cfg_on if kind == "commit" else cfg_off
            ctx = W.make_ctx(cfg, agent, turn, shape=st["shape"])
            graphs0 = state.get("active_graphs")
            if noapi in ("absent", "noncallable"):
                state["store"] = StoreView(store, noapi)
            elif noapi == "nostore":
                state["store"] = None
                state["active_graphs"] = []      # no store, no graphs to walk
            elif noapi == "nokey":
                state.pop("store", None)
                state["active_graphs"] = []

            def _verdict(*a, **k):
                store.phase = True      # from the meta-filter's verdict to the end of the turn = apply phase
                return t4res
            try:
                if entry == "direct":
                    store.phase = True
                    res = apply_mod.apply_changes(ctx, state, t4res)
                    res_ver = res.version_etag
                else:
                    orch_core.t4_filter = _verdict
                    tr = orch_core.run_turn(ctx, state, "apple pear")
                    res_ver = None
                    if not hasattr(tr, "line"):
                        bad("no-turn-result", "run_turn returned %r" % (tr,))
            except Exception as e:  # noqa
                fired = [c[1] for c in store.xcalls[nx0:] if c[3]]
                bad("exception-escapes", "turn %d raised %s: %s%s" % (
                    turn, type(e).__name__, e, (" (scripted store fault in %s)" % ",".join(fired)) if fired else ""))
                break
            finally:
                store.phase = False
                orch_core.t4_filter = old_t4
                if noapi is not None:
                    state["store"] = store
                    state["active_graphs"] = graphs0
            calls = [(c[2], c[3]) for c in store.calls[ncalls0:]]
            ver1 = state.get("version_etag")
            snaps1 = _dir_sig(ex.snap_dir)
            if kind == "kill":
                if calls:
                    bad("kill-switch:store-called", "turn %d kill switch off but store called %r" % (turn, calls))
                if store.w != w0:
                    bad("kill-switch:store-changed", "turn %d store changed %r -> %r" % (turn, sorted(w0.items()), sorted(store.w.items())))
                if ver1 != ver0:
                    bad("kill-switch:version-changed", "turn %d version %r -> %r" % (turn, ver0, ver1))
                if sorted(snaps1) != sorted(snaps0):
                    bad("kill-switch:snapshot-written", "turn %d snapshot dir %r -> %r" % (turn, sorted(snaps0), sorted(snaps1)))
                elif snaps1 != snaps0:
                    bad("kill-switch:snapshot-written", "turn %d snapshot files rewritten: %r" % (
                        turn, sorted(k for k in snaps1 if snaps1[k] != snaps0.get(k))))
                if _count_lines(os.path.join(ex.log_dir, "t4.jsonl")) != t4_lines0 or \
                        _count_lines(os.path.join(ex.log_dir, "apply.jsonl")) != ap_lines0:
                    bad("kill-switch:records-emitted", "turn %d emitted t4/apply records" % turn)
                continue
            # ---- committed turn
            alts = _expected_calls(ids, plan)
            calls_ok = calls in alts
            if not calls_ok:
                bad("call-log", "turn %d store calls %r, expected %r" % (turn, calls, alts[0]))
            # version discipline
            try:
                exp_ver = str(int(ver0 if ver0 is not None else 0) + 1)
            except Exception:
                exp_ver = "1"
            if ver1 != exp_ver:
                bad("version", "turn %d (agent %s) version %r -> %r, expected %r" % (turn, agent, ver0, ver1, exp_ver))
            if entry == "direct" and res_ver != ver1:
                bad("version-result", "turn %d ApplyResult.version_etag %r != state %r" % (turn, res_ver, ver1))
            # snapshot cadence: written this turn = the acting agent's file exists with a new identity
            should = (turn % eff["n"]) == 0
            present = snap_name in snaps1 and snaps1[snap_name] != snaps0.get(snap_name)
            if should != present:
                bad("cadence", "turn %d cadence n=%d: snapshot %s, expected %s" % (
                    turn, eff["n"], "written" if present else "not written", "written" if should else "not written"))
            # cache invalidation (eff = the configuration the section denotes; absent keys read as their documented default)
            conf = eff["ns"]
            for ns in ("t2:semantic", "other:ns", "third:ns"):
                if eff["bust"] is None and ns in conf:
                    continue    # cache_bust_mode absent: the statement does not say whether busting is on
                if noapi is not None and eff["bust"] == "on-apply" and ns in conf:
                    continue    # nothing was handed to a store: invalidating or not is accepted (see CAP_VARIANTS)
                want_empty = eff["bust"] == "on-apply" and ns in conf
                if want_empty and _ns_size(cm, ns) != 0:
                    bad("cache-bust:not-invalidated", "turn %d namespace %s still has %d entries with cache_bust_mode=on-apply (configured namespaces %r)" % (turn, ns, _ns_size(cm, ns), conf))
                if (not want_empty) and not _ns_has_seed(cm, ns):
                    bad("cache-bust:over-invalidated", "turn %d namespace %s lost its entry (bust=%s, configured=%r)" % (turn, ns, eff["bust"], conf))
            if entry == "turn":
                if _count_lines(os.path.join(ex.log_dir, "t4.jsonl")) != t4_lines0 + 1 or \
                        _count_lines(os.path.join(ex.log_dir, "apply.jsonl")) != ap_lines0 + 1:
                    bad("records", "turn %d committed but t4/apply records not emitted exactly once" % turn)
            # store contents after the turn = contents before + the deltas the store accepted during it
            if calls_ok:
                expw_t = dict(w0)
                for _t, k in store.applied[napplied0:]:
                    kk = tuple(k.split(":"))
                    expw_t[kk] = expw_t.get(kk, 0.0) + _DELTA_OF[k]
                if store.w != expw_t:
                    bad("store-content", "turn %d (agent %s) store weights %r, expected contents before the turn + accepted deltas = %r" % (
                        turn, agent, sorted(store.w.items()), sorted(expw_t.items())))
        cap["cls"] = None
        # never applied twice
        seen = set()
        for t, k in store.applied:
            if (t, k) in seen:
                bad("applied-twice", "delta %s applied twice in turn %d" % (k, t))
            seen.add((t, k))
        # store content = sum of successfully applied deltas
        expw = {}
        for h in hist:
            kind, ids, plan, _opt = _letter(h)
            if kind != "commit":
                continue
            for i in ids:
                d = D(i)
                if plan[0] == "noapi":
                    continue
                if plan[0] in ("ok", "okquiet") or dkey(d) not in plan[1]:
                    k = (d.target_kind, d.target_id, d.attr)
                    expw[k] = expw.get(k, 0.0) + float(d.delta)
        if not out and store.w != expw:
            bad("store-content", "store weights %r, expected %r" % (sorted(store.w.items()), sorted(expw.items())))
        return out, (state.get("version_etag"), tuple(sorted((k[1], v) for k, v in store.w.items())), len(store.calls)), \
            [list(c) for c in store.xcalls]
    finally:
        orch_core.t4_filter = old_t4
        ex.close()


def _record(case, res, final, st: Stats):
    n = len(case["history"])
    sett = case["settings"]
    st.add("transitions", n)
    st.add("validated", n)
    st.add("histories")
    opts = [_letter(h)[3] for h in case["history"]]
    agents = tuple(str(o.get("agent") or "A") for o in opts)
    xf = tuple(json.dumps(o.get("xf")) for o in opts) if any("xf" in o for o in opts) else ()
    extra = ()
    if sett.get("store") or sett.get("boot") or xf:
        extra = (sett.get("store"), sett.get("boot"), agents, xf)
    st.distinct("states", (case["entry"], final, sett["n"], sett["bust"], sett["ns"], tuple(sett.get("absent") or ())) + extra)
    if sett.get("absent"):
        st.add("histories_key_absent")
    if any(h[2][0] == "noapi" for h in case["history"]):
        st.add("histories_store_capability")
    if sett.get("boot") == "live":
        st.add("histories_agents")
        if len(set(agents)) > 1:
            st.add("histories_agents_multi")
    if xf:
        st.add("histories_store_call_fault")
    if any(h[2][0] in ("batchfail", "noapi") or h[0] == "kill" for h in case["history"]) or xf or len(set(agents)) > 1:
        st.add("nontrivial")
    st.distinct("outcomes", (case["entry"], final[0], final[2], tuple(sorted(s for s, _ in res))) + ((bool(xf),) if xf else ()))
    for sig, what in res:
        st.violation(sig, what, case)


def _worker(chunk, st: Stats, scratch):
    import logging
    logging.disable(logging.CRITICAL)
    for case in chunk:
        derive = case.get("derive")
        if derive:
            case = {k: v for k, v in case.items() if k != "derive"}
        res, final, xcalls = run_history(case, scratch)
        _record(case, res, final, st)
        if derive != "xfaults":
            continue
        # fault points discovered on the fault-free run: (turn index, number of the store call within the turn)
        id0, stride = case["settings"].get("ids", [1, 1])
        points = sorted({((c[0] - id0) // stride, c[2]) for c in xcalls})
        for c in xcalls:
            st.distinct("store_calls_in_apply_phase", c[1])
        plans = [[(i, k)] for i, k in points]
        if len(points) > 1:
            plans.append("all")
        for pl in plans:
            hist = []
            for i, h in enumerate(case["history"]):
                kind, ids, plan, opt = _letter(h)
                ks = "all" if pl == "all" else [k for (j, k) in pl if j == i]
                hist.append([kind, ids, plan, dict(opt, xf=ks)] if ks else [kind, ids, plan] + ([opt] if opt else []))
            sub = {"entry": case["entry"], "settings": case["settings"], "history": hist}
            res2, final2, xcalls2 = run_history(sub, scratch)
            _record(sub, res2, final2, st)
            if not res2 and not any(c[3] for c in xcalls2):
                raise HarnessError("scripted store-call fault did not fire: %s" % json.dumps(sub))
    if chunk:
        st.sample({k: v for k, v in chunk[0].items() if k != "derive"})
        st.sample({k: v for k, v in chunk[-1].items() if k != "derive"})


def cases(thorough):
    out = []
    # direct entry
    alpha = turn_alphabet(3, with_kill=False)
    depth = 3 if thorough else 2
    for sett in settings_menu("direct", thorough):
        for d in range(1, depth + 1):
            for h in itertools.product(alpha, repeat=d):
                out.append({"entry": "direct", "settings": sett, "history": [list(x) for x in h]})
    # full turn entry
    alpha_small = turn_alphabet(2, with_kill=True)
    alpha_big = turn_alphabet(3, with_kill=True)
    for sett in settings_menu("turn", thorough):
        hs = set()
        for d in range(1, (3 if thorough else 2) + 1):
            for h in itertools.product(alpha_small, repeat=d):
                hs.add(json.dumps(h))
        if thorough:
            for h in itertools.product(alpha_big, repeat=2):
                hs.add(json.dumps(h))
        for h in sorted(hs):
            out.append({"entry": "turn", "settings": sett, "history": json.loads(h)})
    # key-presence shapes of the t4 section (see absent_menu): histories of <=2 turns (a second call in the same process
    # is included); thorough: direct over the full alphabet, turn over the small one; quick: approved lists of <=2 / <=1
    a_direct = alpha if thorough else turn_alphabet(2, with_kill=False)
    for sett in absent_settings("direct", thorough):
        for d in range(1, 3):
            for h in itertools.product(a_direct, repeat=d):
                out.append({"entry": "direct", "settings": sett, "history": [list(x) for x in h]})
    a_turn = alpha_small if thorough else turn_alphabet(1, with_kill=True)
    for sett in absent_settings("turn", thorough):
        for d in range(1, 3):
            for h in itertools.product(a_turn, repeat=d):
                out.append({"entry": "turn", "settings": sett, "history": [list(x) for x in h]})
    # store capability leg (see CAP_VARIANTS)
    for entry in ("direct", "turn"):
        hs = list(cap_histories(entry, thorough))
        for sett in cap_settings(entry, thorough):
            for h in hs:
                out.append({"entry": entry, "settings": sett, "history": h})
    # store export shape + faults of the other store calls (see xfault_*): base histories; the worker derives the faulted ones
    for entry in ("direct", "turn"):
        hs = list(xfault_histories(entry, thorough))
        for sett in xfault_settings(entry, thorough):
            for h in hs:
                out.append({"entry": entry, "settings": sett, "history": h, "derive": "xfaults"})
    # acting agent leg (see agent_*): run_turn only, the boot hook lives there
    hs = list(agent_histories(thorough))
    for sett in agent_settings(thorough):
        for h in hs:
            out.append({"entry": "turn", "settings": sett, "history": h})
    return out


def run(run: Run) -> None:
    cs = cases(run.thorough)
    # only maximal-length histories and their prefixes are distinct work; keep all (prefix runs are cheap)
    run.rule = ("all histories of <=d turns over {commit(approved in [],[d1],[d1,d2],[d1,d2,d3]; fault plan ok | batch raises + every "
                "subset of per-delta calls raising) | kill-switch turn} x cadence{1,2,3} x bust{on-apply,none} x namespaces x "
                "initial version x ctx shape, for apply_changes directly (d<=%d) and full run_turn with scripted meta-filter result; "
                "plus key-presence shapes of the t4 section (keys removed after validation: cache.namespaces | whole cache "
                "section emptied | cache section absent | snapshot_every_n_turns | cache_bust_mode | enabled; %s) x histories "
                "of <=2 turns on both entry points, expected behaviour = that of the validated normal form of the section; "
                "plus store capability of a committed turn (store is a read-only view without apply_deltas | carries a "
                "non-callable apply_deltas | state's store is None%s) x approved in [],[d1,d2], every history of <=%d turns "
                "over these letters + {clean commit, batch fault, partial per-delta fault, kill switch} holding >=1 such turn "
                "x cadence{1,2,3} x bust x initial version x ctx shape on both entry points; "
                "plus a store that offers export_state()/import_state() (the API the snapshot writer prefers over the .w view): "
                "every history of <=%d turns over {%d letters} x cadence{1,2,3} x first turn id {1, n} on both entry points, "
                "and for each of them every store method call other than apply_deltas the engine makes during the apply "
                "phase (numbered per turn, discovered on the fault-free run) raising, one at a time and all at once; "
                "plus acting agents: every history of <=%d run_turn turns over {commit [], commit [d1], partial per-delta "
                "fault, kill switch} x every assignment of <=%d agent ids to the turns (up to renaming) sharing one state, "
                "boot hook live, snapshots of earlier turns left in place, x cadence{1,2,3} x first turn id {1, n} x store "
                "export shape {.w view, export_state}; "
                "non-trivial = history with a store fault, a kill-switch turn, a turn whose store lacks the batch API or "
                "turns of more than one agent"
                % (3 if run.thorough else 2,
                   "every combination" if run.thorough else "each single key path + everything absent",
                   " | state has no store key" if run.thorough else "", 3 if run.thorough else 2,
                   3 if run.thorough else 2, len(xfault_alphabet("turn", run.thorough)),
                   4 if run.thorough else 3, 3 if run.thorough else 2))
    run.notes["histories_total"] = len(cs)   # enumerated up front; the store-call-fault histories are derived on top
    run.notes["key_presence_shapes"] = {e: len(absent_menu(e, run.thorough)) for e in ("direct", "turn")}
    run.notes["histories_key_absent"] = sum(1 for c in cs if c["settings"].get("absent"))
    run.notes["histories_store_capability"] = sum(1 for c in cs if any(h[2][0] == "noapi" for h in c["history"]))
    run.notes["store_capability_letters"] = {e: len(cap_alphabet(e, run.thorough)[1]) for e in ("direct", "turn")}
    run.notes["histories_store_call_fault_base"] = sum(1 for c in cs if c.get("derive") == "xfaults")
    run.notes["histories_agents"] = sum(1 for c in cs if c["settings"].get("boot") == "live")
    run.notes["agent_sequences"] = sorted({"".join(_letter(h)[3].get("agent", "A") for h in c["history"])
                                           for c in cs if c["settings"].get("boot") == "live"})
    run.pmap(_worker, cs, extra=(run.scratch,))
    run.assume("a t4 section lacking a key denotes the configuration configs.validate.validate_config normalises it to "
               "(documented defaults: namespaces [t2:semantic], snapshot every turn, T4 enabled); with cache_bust_mode "
               "absent the cache clauses are not decided (validator default on-apply, engine fallback none)")
    run.assume("the t4 section itself and t4.snapshot_dir are always present (snapshots must stay inside the scratch dir)")
    run.assume("store double is all-or-nothing per call (hypothesis stated in the property)")
    run.assume("on a committed turn whose store offers no callable apply_deltas (or is None) the version, cadence, "
               "no-abort, record and no-over-invalidation clauses are decided; whether the configured namespaces are "
               "invalidated on such a turn is not (nothing was handed to a store); with store None the turn runs "
               "with no active graphs")
    run.assume("approved lists are given in canonical target order, as the meta-filter emits them")
    run.assume("outside the acting-agent leg boot snapshot loading is disabled (state._boot_loaded) and the acting agent's "
               "snapshot file is removed before each turn; in the acting-agent leg the boot hook is live, the snapshot "
               "directory is empty when the history starts (restoring from a previous process is C06/C20's subject) and "
               "no file is removed")
    run.assume("a raising store method other than apply_deltas is judged like the same turn without the fault (nothing "
               "escapes, version +1, snapshot on cadence, records, call log); what the snapshot's store section holds "
               "then is not judged; the apply phase of run_turn = from the meta-filter's verdict to the end of the turn; "
               "the new legs pair a cfg-only context with cache_bust_mode none (cfg-only + on-apply is the listed finding "
               "of the main legs)")


def replay(case):
    import tempfile
    d = tempfile.mkdtemp(prefix="c04r", dir="/dev/shm" if os.path.isdir("/dev/shm") else None)
    try:
        case = {k: v for k, v in case.items() if k != "derive"}
        return run_history(case, d)[0]
    finally:
        shutil.rmtree(d, ignore_errors=True)
