"""C08 — durable files are replaced all-or-nothing (engine E4: I/O fault / crash enumeration).

For every entry point of the atomic write path x old content x new content, a fault-free run numbers the I/O
call boundaries (mc.faults shadows os / tempfile / time / Path / open inside clematis.io.atomic, and ``os`` inside
the two caller modules).  Then *every* plan of the following families is executed on the real code, on a real
tmpfs directory:

  singles   every boundary i: kill-before(i), kill-after(i); every failing call i x errno alphabet;
            every raw write: short(n) as an environment answer and partial-write(n)-then-kill, n in {1, len/2, len-1}
  pairs     every passing single of kind fail/short, re-numbered on *its* trace, x every later boundary x the
            same fault alphabet (adaptive: the clean-up path of the first fault is numbered too)
  transient k consecutive failures of the replace call then success, k in {1, 2, R-1, R} (R = the real retry bound
            read from atomic_replace's signature), x retryable errnos; also k failures then a kill around the
            next attempt
  exhaust   the replace failing on all R attempts (retry budget exhausted) x retryable errnos, re-numbered on *its*
            trace, x every later boundary x the fault alphabet: the path that runs when the retries are used up
            (clean-up, any fall-back) is explored with a further kill / failing call like the ordinary path
  names     temp-name profiles (letters / all digits / underscores) as an environment answer

  writers   two writes of one entry point overlapping in time inside one process — to the SAME destination (contents of
            different length) and to two SIBLING files of one directory: writer A is parked before its boundary i, B
            runs until it is parked before its boundary j, A runs to its end, B runs to its end, for every (i, j)
            (incl. B entirely inside A's window and A;B in sequence = a second write in the same process); thorough
            also old absent, both content assignments, a second window for A (i2 > i) and every failing call of the
            (i, j) schedule x {EIO, EACCES} for atomic_write_bytes.  Real threads, exactly one running, hand-over at
            the numbered boundaries; fault-free unless stated (a kill at a boundary IS the reader probe there)

A reader probe runs at every boundary of every execution (and on the final state).

Seam completeness (mc.escape): a process-wide audit hook sees every open / rename / remove / mkdir / truncate / chmod /
... of the interpreter.  One that touches the execution's directory without passing through a proxy ("escaped call":
the write path reached the file system through another module, e.g. shutil, io.open, a helper) becomes a numbered
boundary ``esc:<event>`` with the same fault alphabet (kill-before / kill-after / failing errno).  An escaped open
*for writing* hands out a handle whose later use raises no audit event: from there to the end of the execution the
return of every C call after which the destination contents or the directory listing changed (with no numbered call
in between) is a further boundary ``esc:after-<function>`` (reader probe + kill point).  Nothing the write path does
to the directory is outside the numbered space, whichever door it uses.

Oracle (from the property statement + DESIGN "C08"):
  partial-visible    a destination read at any boundary / at the end is neither the complete old nor the
                     complete new content (absent counts as old only when old was absent)
  temp-discoverable  a file that is neither pre-existing nor a destination is returned by
                     snapshot._pick_latest_snapshot_path (directly, or on a directory holding only the strays) or
                     matches the log readers' ``*.jsonl`` glob
  return-without-new the write returned normally but a destination it must have replaced is not the new content
  temp-left          a failing call made the write raise (or was absorbed and the write returned) and a stray file
                     is left although no injected failure hit a clean-up call on that stray; after a kill a stray
                     may remain (it must only not be discoverable)
  nofault:*          any of the above (or an exception) without any fault having fired yet
  writers[rel]:*     two-writer leg: partial-visible = a destination is neither its old content nor the complete new
                     content of a writer that targets it; return-without-new = a writer returned normally and its
                     destination is not a complete new content (its own when nobody else writes that file or the other
                     write was over before this one began); temp-discoverable as above; temp-left = both writers are
                     done, one of them failed, a stray file remains.  A writer that merely raises is not judged
"""
from __future__ import annotations

import fnmatch
import inspect
import json
import os
import shutil
import sys
import tempfile as _tempfile
import threading
import types
from typing import Any, Dict, List, Optional, Tuple

from mc.runner import Run, Stats, HarnessError, h64
from mc.faults import SEAMS, Crash, FaultEngine, KILL_BEFORE, KILL_AFTER, FAIL, FAIL_DROP, SHORT, PARTIAL_KILL, fault_tag
from mc.escape import EscapeWatch, NeedFine, ALL as FINE_ALL, PREFIX as ESC

import clematis.io.atomic as atomic_mod
import clematis.io.log as log_mod
from clematis.engine import snapshot as snap_mod

os.environ["SOURCE_DATE_EPOCH"] = "1700000000"  # the sidecar's created_at must not read the wall clock

ERRNOS = ["EIO", "ENOSPC", "EACCES", "EBUSY", "PermissionError"]
TRANSIENT_ERRNOS = ["EACCES", "EBUSY", "PermissionError", "EPERM"]
CLEANUP_CALLS = {"Path.exists", "Path.is_file", "Path.unlink", "unlink", "remove", "Path.stat", "Path.lstat",
                 "os.stat", "os.lstat", ESC + "os.remove"}
REPLACE_LABELS = ("replace", "rename", "Path.replace", "Path.rename", ESC + "os.rename")

BIG = 100 * 1024
DEEP_ENTRIES = ("atomic_write_bytes", "write_snapshot", "rewrite_jsonl")    # one per module that owns a write path
DEEPER_ENTRY = "atomic_write_bytes"      # the function every entry point funnels into: two windows, failing calls


BIG_BYTES = bytes((i * 131 + (i >> 8) * 7) % 251 for i in range(BIG))
BIG_TEXT = "".join(chr(97 + (i * 7 + (i >> 6)) % 26) for i in range(BIG))
BIG_ETAG = "E" * BIG
BIG_RECS = [{"turn": i, "msg": "m" * 86} for i in range(1000)]


OLD_GENERIC = b"old"
OLD_SNAP = b'{"schema_version":"v1","version_etag":"old"}'
OLD_META = b'{"created_at":"2001-01-01T00:00:00Z","schema_version":"v0"}\n'
OLD_LOG = b'{"old":1}\n'


class _Store:
    def __init__(self) -> None:
        self.w = {("node", "n1", "weight"): 0.5}


# ------------------------------------------------------------------ entry points
# spec(d, tag) -> dict(thunk, dests=[abs paths], olds=[bytes], news=[bytes|None], must_new=[bool], readers)
def _spec(entry: str, d: str, tag: str, alt: bool = False) -> Dict[str, Any]:
    """``alt``: the same entry point writing a *sibling* destination in the same directory (second writer of the
    concurrent-writers leg)."""
    j = os.path.join
    if entry == "atomic_write_bytes":
        data = {"empty": b"", "small": b"new", "big": BIG_BYTES}[tag]
        p = j(d, "other.json" if alt else "data.json")
        return dict(thunk=lambda: atomic_mod.atomic_write_bytes(p, data), dests=[p], olds=[OLD_GENERIC], news=[data],
                    must_new=[True], readers=("snap", "log"))
    if entry == "atomic_write_text":
        text = {"empty": "", "small": "new", "big": BIG_TEXT}[tag]
        p = j(d, "t2.jsonl" if alt else "t1.jsonl")
        return dict(thunk=lambda: atomic_mod.atomic_write_text(p, text), dests=[p], olds=[OLD_GENERIC],
                    news=[text.encode("utf-8")], must_new=[True], readers=("snap", "log"))
    if entry == "atomic_write_json":
        obj = {"empty": {}, "small": {"k": "new", "a": 1}, "big": {"k": BIG_TEXT, "a": 1}}[tag]
        p = j(d, "export2.json" if alt else "export.json")
        new = json.dumps(obj, sort_keys=True, separators=(",", ":"), ensure_ascii=False).encode("utf-8")
        return dict(thunk=lambda: atomic_mod.atomic_write_json(p, obj), dests=[p], olds=[OLD_GENERIC], news=[new],
                    must_new=[True], readers=("snap", "log"))
    if entry == "write_snapshot":
        etag = {"small": "new", "big": BIG_ETAG}[tag]
        agent = "B" if alt else "A"
        ctx = types.SimpleNamespace(cfg={"t4": {"snapshot_dir": d}}, agent_id=agent, turn_id=1)
        state = types.SimpleNamespace(store=_Store(), version_etag=None)
        p = j(d, "state_%s.json" % agent)
        return dict(thunk=lambda: snap_mod.write_snapshot(ctx, state, etag, applied=1, deltas=None),
                    dests=[p, p + ".meta"], olds=[OLD_SNAP, OLD_META], news=[None, None], must_new=[True, False],
                    readers=("snap",), check_json={"version_etag": etag})
    if entry == "_write_sidecar_meta":
        p = j(d, "state_B.json" if alt else "state_A.json")
        return dict(thunk=lambda: snap_mod._write_sidecar_meta(p, schema_version="v1"), dests=[p + ".meta"],
                    olds=[OLD_META], news=[None], must_new=[False], readers=("snap",))
    if entry in ("_write_lines", "write_snapshot_auto"):
        payload = {"version_etag": {"small": "new", "big": BIG_ETAG}[tag], "schema_version": "v1"}
        eto = "E2" if alt else "E1"
        p = j(d, "snapshot-%s.full.json" % eto)
        header = {"schema": "snapshot:v1", "mode": "full", "etag_to": eto, "codec": "none", "level": 0}
        body = json.dumps(payload, sort_keys=True, separators=(",", ":"))
        if entry == "_write_lines":
            th = lambda: snap_mod._write_lines(p, header, body, codec="none", level=0)  # noqa: E731
        else:
            th = lambda: snap_mod.write_snapshot_auto(d, etag_from=None, etag_to=eto, payload=payload)  # noqa: E731
        return dict(thunk=th, dests=[p, p + ".meta"], olds=[OLD_SNAP, OLD_META], news=[None, None],
                    must_new=[True, False], readers=("snap",))
    if entry == "rewrite_jsonl":
        recs = {"empty": [], "small": [{"turn": 1, "msg": "new"}],
                "big": BIG_RECS}[tag]
        fname = "t2.jsonl" if alt else "t1.jsonl"
        p = j(d, fname)
        new = "".join(json.dumps(r, ensure_ascii=False, sort_keys=True, separators=(",", ":")) + "\n" for r in recs)

        def th():
            os.environ["CLEMATIS_LOG_DIR"] = d
            return log_mod.rewrite_jsonl(fname, recs)
        return dict(thunk=th, dests=[p], olds=[OLD_LOG], news=[new.encode("utf-8")], must_new=[True], readers=("log",))
    raise HarnessError("unknown entry %s" % entry)


ENTRY_TAGS = {
    "atomic_write_bytes": ["empty", "small", "big"],
    "atomic_write_text": ["empty", "small", "big"],
    "atomic_write_json": ["empty", "small", "big"],
    "write_snapshot": ["small", "big"],
    "_write_sidecar_meta": ["small"],
    "_write_lines": ["small", "big"],
    "write_snapshot_auto": ["small", "big"],
    "rewrite_jsonl": ["empty", "small", "big"],
}
ENTRY_HOME = {"atomic_write_bytes": atomic_mod, "atomic_write_text": atomic_mod, "atomic_write_json": atomic_mod,
              "write_snapshot": snap_mod, "_write_sidecar_meta": snap_mod, "_write_lines": snap_mod,
              "write_snapshot_auto": snap_mod, "rewrite_jsonl": log_mod}


def entries_present() -> List[str]:
    return [e for e in ENTRY_TAGS if callable(getattr(ENTRY_HOME[e], e, None))]


# ------------------------------------------------------------------ machinery per process
_ENG: Optional[FaultEngine] = None
_SEAMS_ABSENT: List[str] = []
_WATCH: Optional[EscapeWatch] = None
_REF: Dict[Tuple[str, str, bool], List[bytes]] = {}
_MISTAKABLE: Dict[Tuple[Tuple[str, ...], Tuple[str, ...]], List[str]] = {}


def engine() -> FaultEngine:
    global _ENG
    if _ENG is None:
        for name in ("atomic_write_bytes",):
            if not callable(getattr(atomic_mod, name, None)):
                raise HarnessError("clematis.io.atomic.%s is gone" % name)
        e = FaultEngine()
        # os, tempfile, time, Path, open — each where the module has it as a global.  A seam the implementation does
        # not import (any more) is no machinery problem: whatever it uses instead reaches the file system either
        # through another proxied global or through a door the audit hook sees (esc:* boundaries, below)
        e.install(atomic_mod, names=tuple(n for n in SEAMS if n == "open" or n in atomic_mod.__dict__))
        global _SEAMS_ABSENT
        _SEAMS_ABSENT = [n for n in SEAMS if n != "open" and n not in atomic_mod.__dict__]
        # the callers' own makedirs become boundaries too, and a caller that by-passes the atomic path with a plain
        # open() is seen (its raw writes are numbered like any other)
        e.install(snap_mod, names=("os", "open"))
        e.install(log_mod, names=("os", "open"))
        _ENG = e
        # whatever reaches the directory through any other door is caught by the audit hook (mc.escape)
        global _WATCH
        _WATCH = EscapeWatch(e)
        _WATCH.install()
    return _ENG


def _det_names(eng: FaultEngine) -> Any:
    """Temp names are an environment answer whichever door the implementation takes to the stdlib name generator
    (the tempfile proxy does the same per call): the engine's counting sequence for the whole execution."""
    saved = getattr(_tempfile, "_name_sequence", None)
    _tempfile._name_sequence = eng.names
    return saved


def _fresh(d: str) -> None:
    shutil.rmtree(d, ignore_errors=True)
    os.makedirs(d)


def _read(p: str) -> Optional[bytes]:
    try:
        with open(p, "rb") as f:
            return f.read()
    except FileNotFoundError:
        return None


def reference_new(entry: str, tag: str, wdir: str, alt: bool = False) -> List[bytes]:
    """New content of every destination.  For the plain writers it follows from the documented format (see _spec);
    for the composite snapshot writers it is what an undisturbed, un-instrumented write produces (checked to be
    well-formed JSON carrying the requested etag)."""
    key = (entry, tag, alt)
    if key in _REF:
        return _REF[key]
    d = os.path.join(wdir, "ref")
    _fresh(d)
    sp = _spec(entry, d, tag, alt)
    eng = _ENG
    if eng is not None and eng.active:
        raise HarnessError("reference run while an execution is active")
    sp["thunk"]()
    out = []
    for k, p in enumerate(sp["dests"]):
        b = _read(p)
        if b is None:
            raise HarnessError("undisturbed %s did not create %s" % (entry, os.path.basename(p)))
        if sp["news"][k] is not None and b != sp["news"][k]:
            # the documented format is the reference; an undisturbed write that differs is reported by the golden run
            b = sp["news"][k]
        out.append(b)
    if sp.get("check_json"):
        try:
            body = json.loads(out[0].decode("utf-8"))
        except Exception as e:
            raise HarnessError("undisturbed %s wrote unparseable JSON: %r" % (entry, e))
        for kk, vv in sp["check_json"].items():
            if body.get(kk) != vv:
                raise HarnessError("undisturbed %s: %s=%r expected %r" % (entry, kk, body.get(kk), vv))
    extra = sorted(set(os.listdir(d)) - {os.path.basename(p) for p in sp["dests"]})
    if extra:
        raise HarnessError("undisturbed %s leaves extra files %s" % (entry, extra))
    shutil.rmtree(d, ignore_errors=True)
    _REF[key] = out
    return out


def mistakable(strays: List[str], readers: Tuple[str, ...], wdir: str) -> List[str]:
    """Which reader would take one of these stray file names for data?  Depends on names only -> cached."""
    key = (tuple(sorted(strays)), tuple(readers))
    got = _MISTAKABLE.get(key)
    if got is not None:
        return got
    out: List[str] = []
    if "snap" in readers:
        v = os.path.join(wdir, "view")
        _fresh(v)
        for n in strays:
            with open(os.path.join(v, n), "wb"):
                pass
        r = snap_mod._pick_latest_snapshot_path(v)
        if r is not None:
            out.append("snapshot discovery on the strays alone returns %s" % os.path.basename(r))
        shutil.rmtree(v, ignore_errors=True)
    if "log" in readers:
        m = [n for n in strays if fnmatch.fnmatch(n, "*.jsonl")]
        if m:
            out.append("log glob *.jsonl matches %s" % m[0])
    _MISTAKABLE[key] = out
    return out


def _state_name(b: Optional[bytes], old: Optional[bytes], new: bytes) -> str:
    if b is None:
        return "absent"
    if b == new:
        return "new"
    if old is not None and b == old:
        return "old"
    return "other(%d bytes)" % len(b)


def _plan_str(plan: List[Dict[str, Any]]) -> str:
    if not plan:
        return "[]"
    parts = []
    for f in plan:
        where = ("#%d" % f["at"]) if "at" in f else (
            "%s.%s[%d]" % (f["site"], f["name"], f["socc"]) if "socc" in f else "%s[%d]" % (f["name"], f["occ"]))
        t = fault_tag(f) + (("(n=%d)" % f["n"]) if "n" in f else "")
        parts.append(where + ":" + t)
    if len(parts) > 6:
        parts = parts[:2] + ["...(%d faults)..." % (len(parts) - 4)] + parts[-2:]
    return "[" + ", ".join(parts) + "]"


def _sig_of(fired: List[Tuple[int, Dict[str, Any]]], trace: List[Dict[str, Any]]) -> str:
    comps: List[str] = []
    for idx, f in fired:
        ent = trace[idx]
        comps.append("%s:%s:%s" % (ent["site"], ent["name"], fault_tag(f)))
    out: List[str] = []
    i = 0
    while i < len(comps):
        k = i
        while k + 1 < len(comps) and comps[k + 1] == comps[i]:
            k += 1
        n = k - i + 1
        out.append(comps[i] + ("x%d" % n if n > 1 else ""))
        i = k + 1
    return "+".join(out) if out else "nofault"


class Res:
    __slots__ = ("outcome", "exc", "trace", "fired", "viol", "klass", "nprobes", "first_fault", "fine", "escapes",
                 "doors")


def execute(entry: str, old_tag: str, new_tag: str, plan: List[Dict[str, Any]], names: str, wdir: str,
            fine: Any = ()) -> Res:
    """One execution.  ``fine``: hint — the boundaries at which the fine-step observer must be on (``Res.fine`` of
    the execution the plan was derived from).  An execution that meets an escaped call unprepared is thrown away and
    repeated with the observer positioned there (see mc.escape: the numbering of the completed execution does not
    depend on the hint)."""
    if fine == FINE_ALL:
        return _execute(entry, old_tag, new_tag, plan, names, wdir, FINE_ALL)
    on_at = set(fine or ())
    for _attempt in range(8):
        try:
            return _execute(entry, old_tag, new_tag, plan, names, wdir, on_at)
        except NeedFine as nf:
            if nf.at in on_at:
                break
            on_at.add(nf.at)
    return _execute(entry, old_tag, new_tag, plan, names, wdir, FINE_ALL)


def _execute(entry: str, old_tag: str, new_tag: str, plan: List[Dict[str, Any]], names: str, wdir: str,
             fine: Any) -> Res:
    eng = engine()
    watch = _WATCH
    assert watch is not None
    news = reference_new(entry, new_tag, wdir)
    d = os.path.join(wdir, "x")
    _fresh(d)
    sp = _spec(entry, d, new_tag)
    dests: List[str] = sp["dests"]
    olds: List[Optional[bytes]] = [None] * len(dests) if old_tag == "absent" else list(sp["olds"])
    for p, b in zip(dests, olds):
        if b is not None:
            with open(p, "wb") as f:
                f.write(b)
    initial = set(os.listdir(d))
    legit = initial | {os.path.basename(p) for p in dests}
    readers = sp["readers"]
    pv: Dict[str, Tuple[int, str]] = {}  # clause -> (boundary index or -1 for final, detail)

    def look(bidx: int) -> Tuple[List[str], List[str]]:
        states = []
        for k, p in enumerate(dests):
            b = _read(p)
            ok = (b == news[k]) or (b == olds[k])
            if not ok and "partial-visible" not in pv:
                pv["partial-visible"] = (bidx, "%s holds %s, neither old (%s) nor new (%d bytes)" % (
                    os.path.basename(p), "nothing" if b is None else "%d bytes %r" % (len(b), b[:16]),
                    "absent" if olds[k] is None else "%d bytes" % len(olds[k]), len(news[k])))
            states.append(_state_name(b, olds[k], news[k]))
        strays = sorted(set(os.listdir(d)) - legit)
        if strays and "temp-discoverable" not in pv:
            why = mistakable(strays, readers, wdir)
            if "snap" in readers:
                got = snap_mod._pick_latest_snapshot_path(d)
                if got is not None and os.path.basename(got) in strays:
                    why = why + ["_pick_latest_snapshot_path returns %s" % os.path.basename(got)]
            if why:
                pv["temp-discoverable"] = (bidx, "; ".join(why))
        return states, strays

    nprobes = [0]

    def probe(_eng, ent):
        nprobes[0] += 1
        look(ent["i"])
        watch.boundary(ent)     # after the look: a kill that is due here must not hide the state it leaves

    def fs_sig():
        return tuple(_read(p) for p in dests), tuple(sorted(os.listdir(d)))

    eng.begin(plan, probe=probe, root=d, names=names)
    watch.begin(d, fs_sig, fine)
    saved_seq = _det_names(eng)
    try:
        outcome, val = eng.run(sp["thunk"])
        if watch.need_at is not None:   # the target swallowed the NeedFine signal
            raise NeedFine(watch.need_at)
        if watch.pending_die:   # kill-after of an escaped call that was the last thing the write did
            watch.pending_die = False
            eng.dead = True
            outcome, val = "killed", None
        trace, fired = eng.trace, eng.fired
        unfired_at = [f for f in eng.unfired() if "at" in f]
    finally:
        _tempfile._name_sequence = saved_seq
        watch.end()
        eng.end()
    if unfired_at:
        raise HarnessError("nondeterministic replay: planned fault %r never reached in %s (trace %d calls)" % (
            unfired_at[0], entry, len(trace)))
    states, strays = look(-1)

    r = Res()
    r.outcome, r.exc, r.trace, r.fired, r.nprobes = outcome, (val if outcome == "raise" else None), trace, fired, nprobes[0]
    r.first_fault = fired[0][0] if fired else None
    r.fine, r.escapes, r.doors = (fine if fine == FINE_ALL else sorted(fine)), watch.escapes, list(watch.doors)
    clauses: List[Tuple[str, str, bool]] = []  # (clause, detail, before_any_fault)
    for cl, (bidx, detail) in sorted(pv.items()):
        # the boundary probe before call i sees the state after calls < i; the fault at index f fires after probe f
        pre = bidx != -1 and (r.first_fault is None or bidx <= r.first_fault)
        if bidx == -1 and not fired:
            pre = True
        where = "final state" if bidx == -1 else "reader at boundary #%d (before %s in %s)" % (
            bidx, trace[bidx]["name"], trace[bidx]["site"])
        clauses.append((cl, "%s: %s" % (where, detail), pre))
    if outcome == "return":
        for k, p in enumerate(dests):
            if sp["must_new"][k] and states[k] != "new":
                clauses.append(("return-without-new", "returned normally but %s is %s" % (os.path.basename(p), states[k]),
                                not fired))
    if outcome == "return" and not fired:
        for k, p in enumerate(dests):
            if not sp["must_new"][k] and states[k] != "new":
                clauses.append(("return-without-new", "undisturbed write returned but %s is %s" % (
                    os.path.basename(p), states[k]), True))
    if outcome == "raise" and not fired:
        clauses.append(("raises", "undisturbed write raised %r" % (val,), True))
    if outcome in ("return", "raise") and strays:
        failing = [(i, f) for i, f in fired if f["kind"] in (FAIL, FAIL_DROP)]
        exempt = any(trace[i]["name"] in CLEANUP_CALLS and trace[i]["path"] in strays for i, f in failing)
        # only *failed* writes are constrained by the statement (a failing call that was absorbed counts: the
        # temp of the failed inner write must be gone too); a fault-free write that leaves files is only held to
        # the temp-discoverable clause
        if failing and not exempt:
            clauses.append(("temp-left", "write %s after a failing call and left %s" % (
                "raised" if outcome == "raise" else "returned", strays), False))
    viol: List[Tuple[str, str]] = []
    head = "%s old=%s new=%s plan=%s outcome=%s%s" % (entry, old_tag, new_tag, _plan_str(plan), outcome,
                                                       (" %r" % (val,)) if outcome == "raise" else "")
    by_sig: Dict[str, List[str]] = {}
    for cl, detail, pre in clauses:
        if pre:
            bidx = pv[cl][0] if cl in pv else -1
            if bidx is not None and bidx >= 0:
                sig = "nofault:%s:%s:%s" % (trace[bidx]["site"], trace[bidx]["name"], cl)
            else:
                sig = "nofault:%s:%s" % (entry, cl)
        else:
            sig = _sig_of(fired, trace)
        by_sig.setdefault(sig, []).append("%s — %s" % (cl, detail))
    for sig, ds in by_sig.items():
        viol.append((sig, head + " :: " + " | ".join(ds)))
    r.viol = viol
    r.klass = (outcome, type(val).__name__ if outcome == "raise" else "", tuple(s.split("(")[0] for s in states), bool(strays))
    return r



# ------------------------------------------------------------------ two writers in one process (schedule leg)
# The temp file, the retry state and the clean-up of a write are private to that write.  Two writes that overlap in
# time inside one process (worker threads of the agent-parallel driver, a maintenance thread next to the turn loop)
# must therefore each be all-or-nothing, whether they target the same destination or two files of one directory.
# The two writers run as real threads of which exactly one runs at any time; the hand-over points are the numbered
# I/O boundaries (between two boundaries a writer touches nothing another thread can see).
BLOCK_TIMEOUT = 60.0    # a writer that does not reach its next boundary: waits for something the parked writer holds


class _Baton:
    def __init__(self, n: int) -> None:
        self.cv = threading.Condition()
        self.state = ["new"] * n        # new | running | parked | done
        self.count = [0] * n            # boundaries reached by writer t
        self.target: List[Optional[int]] = [None] * n   # writer t parks before its boundary number target[t]
        self.free = False
        self.tls = threading.local()

    def me(self) -> Optional[int]:
        return getattr(self.tls, "t", None)

    # -- writer side
    def wait_start(self, t: int) -> None:
        with self.cv:
            while self.state[t] != "running":
                self.cv.wait()

    def boundary(self, t: int) -> None:
        c = self.count[t]
        self.count[t] = c + 1
        if self.free or self.target[t] is None or c != self.target[t]:
            return
        with self.cv:
            self.state[t] = "parked"
            self.cv.notify_all()
            while self.state[t] != "running":
                self.cv.wait()

    def finish(self, t: int) -> None:
        with self.cv:
            self.state[t] = "done"
            self.cv.notify_all()

    # -- controller side
    def resume(self, t: int, target: Optional[int]) -> str:
        import time as _t
        with self.cv:
            if self.state[t] == "done":
                return "done"
            self.target[t] = target
            self.state[t] = "running"
            self.cv.notify_all()
            end = _t.monotonic() + BLOCK_TIMEOUT
            while self.state[t] == "running":
                left = end - _t.monotonic()
                if left <= 0:
                    return "blocked"
                self.cv.wait(left)
            return self.state[t]

    def release_all(self) -> None:
        with self.cv:
            self.free = True
            for t in range(len(self.state)):
                if self.state[t] != "done":
                    self.state[t] = "running"
            self.cv.notify_all()


class CRes:
    __slots__ = ("outs", "trace", "fired", "viol", "klass", "nprobes", "parks", "blocked", "counts", "escapes", "doors")


def _segs_str(segs: List[Tuple[int, Optional[int]]]) -> str:
    parts = ["%s to its boundary #%d" % ("AB"[t], n) for t, n in segs if n is not None]
    return "; ".join(parts + ["then each to the end"]) if parts else "A to the end, then B"


def execute_conc(entry: str, old_tag: str, tags: Tuple[str, str], rel: str, segs: List[Tuple[int, Optional[int]]],
                 plan: List[Dict[str, Any]], wdir: str) -> CRes:
    """Two writers of ``entry`` (A writes content tags[0]; B writes tags[1] to the same destination when rel ==
    'same', to a sibling file of the same directory when rel == 'sibling') under the schedule ``segs`` =
    [(writer, park before its boundary number n), ...]; when the list is used up the writers run to their end one
    after the other, the one that was not running last first."""
    try:
        return _execute_conc(entry, old_tag, tags, rel, segs, plan, wdir, ())
    except NeedFine:
        return _execute_conc(entry, old_tag, tags, rel, segs, plan, wdir, FINE_ALL)


def _execute_conc(entry: str, old_tag: str, tags: Tuple[str, str], rel: str, segs: List[Tuple[int, Optional[int]]],
                  plan: List[Dict[str, Any]], wdir: str, fine: Any) -> CRes:
    eng = engine()
    watch = _WATCH
    assert watch is not None
    if any(f["kind"] != FAIL for f in plan):
        raise HarnessError("the two-writer leg takes failing calls only (a kill is the reader probe at that boundary)")
    alt = rel == "sibling"
    news_w = [reference_new(entry, tags[0], wdir), reference_new(entry, tags[1], wdir, alt)]
    d = os.path.join(wdir, "x")
    _fresh(d)
    sps = [_spec(entry, d, tags[0]), _spec(entry, d, tags[1], alt)]
    paths: List[str] = []
    olds: Dict[str, Optional[bytes]] = {}
    accept: Dict[str, List[bytes]] = {}
    for w_ in (0, 1):
        for k, p in enumerate(sps[w_]["dests"]):
            if p not in accept:
                paths.append(p)
                accept[p] = []
                olds[p] = None if old_tag == "absent" else sps[w_]["olds"][k]
            if news_w[w_][k] not in accept[p]:
                accept[p].append(news_w[w_][k])
    if alt and set(sps[0]["dests"]) & set(sps[1]["dests"]):
        raise HarnessError("sibling destinations of %s coincide" % entry)
    for p in paths:
        if olds[p] is not None:
            with open(p, "wb") as f:
                f.write(olds[p])
    initial = set(os.listdir(d))
    legit = initial | {os.path.basename(p) for p in paths}
    readers = sps[0]["readers"]
    pv: Dict[str, Tuple[int, str]] = {}

    def state_of(p: str, b: Optional[bytes]) -> str:
        if b is None:
            return "absent"
        for w_ in (0, 1):
            ds = sps[w_]["dests"]
            if p in ds and b == news_w[w_][ds.index(p)]:
                return "new" + "AB"[w_]
        if olds[p] is not None and b == olds[p]:
            return "old"
        return "other"

    def look(bidx: int) -> Tuple[Dict[str, str], List[str]]:
        states: Dict[str, str] = {}
        for p in paths:
            b = _read(p)
            ok = (b == olds[p]) or (b in accept[p])
            if not ok and "partial-visible" not in pv:
                pv["partial-visible"] = (bidx, "%s holds %s: neither old (%s) nor the complete new content of a writer (%s bytes)" % (
                    os.path.basename(p), "nothing" if b is None else "%d bytes %r" % (len(b), b[:16]),
                    "absent" if olds[p] is None else "%d bytes" % len(olds[p]), "/".join(str(len(x)) for x in accept[p])))
            states[p] = state_of(p, b) if ok else "other"
        strays = sorted(set(os.listdir(d)) - legit)
        if strays and "temp-discoverable" not in pv:
            why = mistakable(strays, readers, wdir)
            if "snap" in readers:
                got = snap_mod._pick_latest_snapshot_path(d)
                if got is not None and os.path.basename(got) in strays:
                    why = why + ["_pick_latest_snapshot_path returns %s" % os.path.basename(got)]
            if why:
                pv["temp-discoverable"] = (bidx, "; ".join(why))
        return states, strays

    baton = _Baton(2)
    outs: List[Optional[Tuple[str, Any]]] = [None, None]
    needfine: List[int] = []
    herr: List[str] = []
    nprobes = [0]
    other_done_at_start: List[Optional[bool]] = [None, None]
    prof = fine == FINE_ALL

    def probe(_eng, ent):
        t = baton.me()
        if t is None:
            herr.append("boundary %s reached outside the writer threads" % ent["name"])
            return
        ent["w"] = t
        if other_done_at_start[t] is None:
            other_done_at_start[t] = outs[1 - t] is not None
        if t == 1 or baton.count[1]:
            # (while B has not begun, A's run is the single-writer run, probed at every boundary by the other legs)
            nprobes[0] += 1
            look(ent["i"])
        watch.boundary(ent)
        eng.in_probe = False        # the writer parks here: the other writer's calls are numbered, not passed through
        try:
            baton.boundary(t)
        finally:
            eng.in_probe = True

    def body(t: int) -> None:
        baton.tls.t = t
        baton.wait_start(t)
        if prof:
            sys.setprofile(watch._prof)
        try:
            try:
                v = sps[t]["thunk"]()
                outs[t] = ("killed", None) if eng.dead else ("return", v)
            except Crash:
                outs[t] = ("killed", None)
            except NeedFine as nf:
                needfine.append(nf.at)
                outs[t] = ("abort", None)
            except BaseException as e:  # noqa: BLE001 -- the failure the caller of this write sees
                outs[t] = ("killed", None) if eng.dead else ("raise", e)
        finally:
            sys.setprofile(None)
            baton.finish(t)

    def fs_sig():
        return tuple(_read(p) for p in paths), tuple(sorted(os.listdir(d)))

    eng.begin(plan, probe=probe, root=d, names="alpha")
    watch.begin(d, fs_sig, fine)
    sys.setprofile(None)        # the controller thread is no writer (the writers install the observer themselves)
    saved_seq = _det_names(eng)
    threads = [threading.Thread(target=body, args=(t,), daemon=True) for t in (0, 1)]
    parks: List[str] = []
    blocked = False
    try:
        for th in threads:
            th.start()
        last = 1
        for t, target in segs:
            got = baton.resume(t, target)
            parks.append(got)
            last = t
            if got == "blocked" or needfine:
                blocked = got == "blocked"
                break
        if not blocked and not needfine:
            for t in (1 - last, last):
                if baton.resume(t, None) == "blocked":
                    blocked = True
                    break
        if blocked or needfine:
            baton.release_all()
        for th in threads:
            th.join(60.0)
        if any(th.is_alive() for th in threads):
            baton.release_all()
            raise HarnessError("two-writer leg: the writers of %s never finish (schedule %s)" % (entry, _segs_str(segs)))
        trace, fired = eng.trace, eng.fired
        unfired_at = [f for f in eng.unfired() if "at" in f]
        if watch.need_at is not None and not needfine:
            needfine.append(watch.need_at)
    finally:
        _tempfile._name_sequence = saved_seq
        watch.end()
        eng.end()
    if needfine and fine != FINE_ALL:
        raise NeedFine(needfine[0])
    if herr:
        raise HarnessError(herr[0])
    r = CRes()
    r.outs, r.trace, r.fired, r.nprobes, r.parks, r.blocked = outs, trace, fired, nprobes[0], parks, blocked
    r.counts, r.escapes, r.doors = list(baton.count), watch.escapes, list(watch.doors)
    r.viol = []
    r.klass = ("blocked",)
    if blocked:
        return r        # the schedule does not exist for this implementation (a writer waits for the parked one)
    if unfired_at:
        raise HarnessError("nondeterministic replay: planned fault %r never reached by the two writers of %s" % (
            unfired_at[0], entry))
    states, strays = look(-1)
    first_fault = fired[0][0] if fired else None
    clauses: List[Tuple[str, str, bool]] = []
    for cl, (bidx, detail) in sorted(pv.items()):
        pre = (bidx != -1 and (first_fault is None or bidx <= first_fault)) or (bidx == -1 and not fired)
        where = "final state" if bidx == -1 else "reader at boundary #%d (writer %s before %s in %s)" % (
            bidx, "AB"[trace[bidx].get("w", 0)], trace[bidx]["name"], trace[bidx]["site"])
        clauses.append((cl, "%s: %s" % (where, detail), pre))
    kinds = [o[0] if o else "abort" for o in outs]
    for w_ in (0, 1):
        if kinds[w_] != "return":
            continue
        for k, p in enumerate(sps[w_]["dests"]):
            if not (sps[w_]["must_new"][k] or not fired):
                continue
            mine = "new" + "AB"[w_]
            if alt or (other_done_at_start[w_] and kinds[1 - w_] == "return"):
                # nobody else writes this file / the other write was over before this one began: it must be this content
                good = states[p] == mine or _read(p) == news_w[w_][k]
                want = "its new content"
            else:
                good = states[p].startswith("new")
                want = "the complete new content of one of the writers"
            if not good:
                clauses.append(("return-without-new", "writer %s returned normally but %s is %s, not %s" % (
                    "AB"[w_], os.path.basename(p), states[p], want), not fired))
    if "killed" not in kinds and strays:
        failing = [(i, f) for i, f in fired if f["kind"] in (FAIL, FAIL_DROP)]
        exempt = any(trace[i]["name"] in CLEANUP_CALLS and trace[i]["path"] in strays for i, f in failing)
        if (failing and not exempt) or (not fired and "raise" in kinds):
            clauses.append(("temp-left", "both writers are done (%s), a write failed and %s is left" % (
                "/".join(kinds), strays), not fired))
    head = "two writers of %s (%s) old=%s A=%s B=%s schedule=[%s] plan=%s outcomes=%s" % (
        entry, "same destination" if not alt else "sibling files of one directory", old_tag, tags[0], tags[1],
        _segs_str(segs), _plan_str(plan), "/".join(
            k + ((" %r" % (outs[w_][1],)) if k == "raise" else "") for w_, k in enumerate(kinds)))
    by_sig: Dict[str, List[str]] = {}
    for cl, detail, pre in clauses:
        sig = "writers[%s]:%s" % (rel, cl) if pre else "writers[%s]:%s" % (rel, _sig_of(fired, trace))
        by_sig.setdefault(sig, []).append("%s — %s" % (cl, detail))
    for sig, ds in by_sig.items():
        r.viol.append((sig, head + " :: " + " | ".join(ds)))
    r.klass = ("2w", rel, tuple(kinds), tuple(type(o[1]).__name__ if o and o[0] == "raise" else "" for o in outs),
               tuple(states[p] for p in paths), bool(strays))
    return r


# ------------------------------------------------------------------ enumeration
def short_lengths(n: int) -> List[int]:
    return sorted({x for x in (1, n // 2, n - 1) if 0 < x < n})


def faults_at(ent: Dict[str, Any], errnos: List[str]) -> List[Dict[str, Any]]:
    i = ent["i"]
    out: List[Dict[str, Any]] = [{"at": i, "kind": KILL_BEFORE}, {"at": i, "kind": KILL_AFTER}]
    if ent["failable"]:
        out += [{"at": i, "kind": FAIL, "errno": e} for e in errnos]
    if ent["failable"] and ent["name"] == "fsync":
        out.append({"at": i, "kind": FAIL_DROP, "errno": "EIO"})   # failed write-back: the data may be gone
    if ent["writer"]:
        for n in short_lengths(ent["len"]):
            out.append({"at": i, "kind": SHORT, "n": n})
            out.append({"at": i, "kind": PARTIAL_KILL, "n": n})
    return out


def fault_key(ent: Dict[str, Any], f: Dict[str, Any]) -> Tuple:
    return (ent["site"], ent["name"], ent["socc"], fault_tag(f), f.get("n"))


def retry_bound() -> Tuple[int, str]:
    fn = getattr(atomic_mod, "atomic_replace", None)
    try:
        r = inspect.signature(fn).parameters["retries"].default
        if isinstance(r, int) and 1 <= r <= 10000:
            return r, "atomic_replace(retries=%d)" % r
    except Exception:
        pass
    return 80, "default 80 (no readable retries parameter)"


def transient_plans(trace: List[Dict[str, Any]], R: int) -> List[List[Dict[str, Any]]]:
    lab = next((e["name"] for e in trace if e["name"] in REPLACE_LABELS), None)
    if lab is None:
        return []
    plans = []
    ks = sorted({k for k in (1, 2, R - 1, R) if k >= 1})
    for e in TRANSIENT_ERRNOS:
        for k in ks:
            plans.append([{"name": lab, "occ": o, "kind": FAIL, "errno": e} for o in range(1, k + 1)])
        for k in sorted({1, max(1, R - 1)}):
            for kind in (KILL_BEFORE, KILL_AFTER):
                plans.append([{"name": lab, "occ": o, "kind": FAIL, "errno": e} for o in range(1, k + 1)] +
                             [{"name": lab, "occ": k + 1, "kind": kind}])
    return plans


def minimise(combo: Tuple[str, str, str], plan, names: str, r: Res, w: str):
    """A violating plan whose proper sub-plan (no fault / one of its two faults alone / for a repeated failure
    followed by one different fault: that fault alone, the repeated failure alone) already violates belongs to the sub-plan: report that one (smaller witness,
    and one signature per root cause instead of one per bystander fault).  Faults are re-addressed by (calling
    function, label, occurrence within that function) so that they keep their meaning when another one is dropped
    (and whether the execution is coarse or fine)."""
    if not r.viol or not plan:
        return r.viol, plan
    addr = []
    for f in plan:
        if "at" in f:
            ent = r.trace[f["at"]]
            g = {k: v for k, v in f.items() if k != "at"}
            g["name"], g["site"], g["socc"] = ent["name"], ent["site"], ent["socc"]
            addr.append(g)
        else:
            addr.append(f)
    cands: List[List[Dict[str, Any]]] = [[]]
    if len(addr) == 2:
        cands += [[addr[0]], [addr[1]]]
    elif len(addr) > 2 and (addr[-1]["name"], fault_tag(addr[-1])) != (addr[0]["name"], fault_tag(addr[0])):
        cands += [[addr[-1]], addr[:-1]]    # a repeated failure followed by one different fault
    for cand in cands:
        rc = execute(combo[0], combo[1], combo[2], cand, names, w)
        if rc.viol:
            return rc.viol, cand
    return r.viol, plan


def _account(st: Stats, combo: Tuple[str, str, str], plan, names: str, r: Res, w: str) -> None:
    entry, old_tag, new_tag = combo
    st.add("transitions", len(r.trace))
    st.add("validated")
    st.add("executions")
    st.add("reader_probes", r.nprobes + 1)
    if r.escapes:
        st.add("executions_with_escaped_calls")
        st.add("escaped_calls", r.escapes)
        for door in r.doors:
            st.distinct("escape_doors", door)
    st.distinct("states", (entry, old_tag, new_tag, names, plan))
    st.distinct("outcomes", r.klass)
    if r.fired:
        st.add("nontrivial")
    viol, vplan = r.viol, plan
    if r.viol and plan:
        viol, vplan = minimise(combo, plan, names, r, w)
        st.add("minimisation_runs")
    case = {"entry": entry, "old": old_tag, "new": new_tag, "plan": vplan, "names": names}
    if r.fine:
        case["fine"] = r.fine   # hint only: where the fine-step observer is needed
    if r.viol:
        # the runner keeps the case with the shortest JSON per signature: make "most direct entry point, old=old,
        # new=small" the shortest, so the stored witness is the minimal one (the pad has no other meaning)
        rank = (list(ENTRY_TAGS).index(entry) * 6 + ["small", "empty", "big"].index(new_tag) * 2
                + ["old", "absent"].index(old_tag))
        case["witness_order_pad"] = "." * (24 * rank)
    for sig, what in viol:
        st.violation(sig, what, case)
    if r.viol:
        st.add("failing_executions")


def _wdir(scratch: str) -> str:
    w = os.path.join(scratch, "w%d" % os.getpid())
    os.makedirs(w, exist_ok=True)
    return w


def _single_worker(chunk, st: Stats, scratch: str):
    """chunk: [(combo, plan, names, family, fine)]"""
    w = _wdir(scratch)
    for combo, plan, names, family, fine in chunk:
        r = execute(combo[0], combo[1], combo[2], plan, names, w, fine)
        _account(st, combo, plan, names, r, w)
        st.add("plans_" + family)
        if family == "single" and r.viol and r.fired:
            idx, f = r.fired[0]
            st.distinct("badkeys", (list(combo), list(fault_key(r.trace[idx], f))))
        if family in ("golden", "transient") and len(st.samples) < 2:
            st.sample({"entry": combo[0], "old": combo[1], "new": combo[2], "plan": _plan_str(plan),
                       "outcome": r.outcome, "calls": len(r.trace)})
    shutil.rmtree(w, ignore_errors=True)


def _pair_worker(chunk, st: Stats, scratch: str, bad: frozenset, errnos2: List[str]):
    """chunk: [(combo, first_fault, fine)] — re-run the single, then every later boundary of *its* trace x alphabet."""
    w = _wdir(scratch)
    for combo, first, fine in chunk:
        r1 = execute(combo[0], combo[1], combo[2], [first], "alpha", w, fine)
        if r1.viol:
            st.add("pairs_subsumed_first_fault_already_fails")
            continue
        i1 = r1.fired[0][0]
        for ent in r1.trace[i1 + 1:]:
            for f2 in faults_at(ent, errnos2):
                if h64((list(combo), list(fault_key(ent, f2)))) in bad:
                    st.add("pairs_subsumed_second_fault_already_fails")
                    continue
                plan = [first, f2]
                r = execute(combo[0], combo[1], combo[2], plan, "alpha", w, r1.fine)
                _account(st, combo, plan, "alpha", r, w)
                st.add("plans_pair")
        if len(st.samples) < 1 and len(r1.trace) > i1 + 1:
            st.sample({"entry": combo[0], "old": combo[1], "new": combo[2], "first": _plan_str([first]),
                       "trace_after_first": [e["name"] for e in r1.trace[i1 + 1:]][:12]})
    shutil.rmtree(w, ignore_errors=True)


def exhaust_firsts(trace: List[Dict[str, Any]], R: int, every_write: bool) -> List[List[Dict[str, Any]]]:
    """The replace fails on every one of its R attempts, per retryable errno — for the first replace of the
    fault-free trace, with ``every_write`` for each of them (composite writers replace more than one file)."""
    starts = [(e["name"], e["occ"]) for e in trace if e["name"] in REPLACE_LABELS]
    if not every_write:
        starts = starts[:1]
    return [[{"name": lab, "occ": o, "kind": FAIL, "errno": e} for o in range(o1, o1 + R)]
            for lab, o1 in starts for e in TRANSIENT_ERRNOS]


def _exhaust_worker(chunk, st: Stats, scratch: str, errnos2: List[str]):
    """chunk: [(combo, first_plan)] — run the exhausted-retries plan (itself judged in the transient family), then
    every boundary after its last failure, on *its* trace, x the fault alphabet."""
    w = _wdir(scratch)
    for combo, first in chunk:
        r1 = execute(combo[0], combo[1], combo[2], first, "alpha", w)
        if r1.viol:
            st.add("exhaust_subsumed_first_plan_already_fails")
            continue
        if len(r1.fired) != len(first):
            # the implementation gave up earlier than its declared budget: the remaining failures never happen
            st.add("exhaust_budget_not_reached")
        if not r1.fired:
            continue
        i1 = r1.fired[-1][0]
        for ent in r1.trace[i1 + 1:]:
            for f2 in faults_at(ent, errnos2):
                plan = first[:len(r1.fired)] + [f2]
                r = execute(combo[0], combo[1], combo[2], plan, "alpha", w, r1.fine)
                _account(st, combo, plan, "alpha", r, w)
                st.add("plans_exhaust")
        if len(st.samples) < 1 and len(r1.trace) > i1 + 1:
            st.sample({"entry": combo[0], "old": combo[1], "new": combo[2], "first": _plan_str(first),
                       "trace_after_exhaustion": [e["name"] for e in r1.trace[i1 + 1:]][:12]})
    shutil.rmtree(w, ignore_errors=True)



def _account_conc(st: Stats, key: Tuple, segs, plan, r: CRes) -> None:
    entry, old_tag, tags, rel = key
    st.add("transitions", len(r.trace))
    st.add("executions")
    st.add("plans_writers")
    if r.blocked:
        st.add("writers_schedules_blocked")
        return
    st.add("validated")
    st.add("reader_probes", r.nprobes + 1)
    if r.escapes:
        st.add("executions_with_escaped_calls")
        st.add("escaped_calls", r.escapes)
        for door in r.doors:
            st.distinct("escape_doors", door)
    st.distinct("states", ("2w", entry, old_tag, list(tags), rel, [list(x) for x in segs], plan))
    st.distinct("outcomes", r.klass)
    if sum(1 for x in r.parks if x == "parked") >= 2 or r.fired:
        st.add("nontrivial")            # the two writes really overlap
        st.add("writers_overlapping")
    case = {"entry": entry, "old": old_tag, "new": tags[0], "plan": plan,
            "writers": {"new2": tags[1], "rel": rel, "segs": [list(x) for x in segs]}}
    if r.viol:
        rank = (list(ENTRY_TAGS).index(entry) * 4 + ["old", "absent"].index(old_tag) * 2 + (tags[0] != "small"))
        case["witness_order_pad"] = "." * (24 * rank + sum((n or 0) for _t, n in segs))
        st.add("failing_executions")
    for sig, what in r.viol:
        st.violation(sig, what, case)


def _conc_worker(chunk, st: Stats, scratch: str, deep: bool, errnos: List[str]):
    """chunk: [(entry, old, (tagA, tagB), rel, i)] — A parks before its boundary i (None: A runs to its end first);
    then B parks before its boundary j for every j until B finishes inside that window; A to the end, B to the end.
    deep: additionally, for every (i, j), A is stopped a second time before its boundary i2 > i (B then runs to its end
    first), and every failing call of the (i, j) schedule x errnos is injected."""
    w = _wdir(scratch)
    for entry, old_tag, tags, rel, i in chunk:
        key = (entry, old_tag, tags, rel)
        if i is None:
            segs: List[Tuple[int, Optional[int]]] = [(0, None)]
            _account_conc(st, key, segs, [], execute_conc(entry, old_tag, tags, rel, segs, [], w))
            continue
        j = 1
        while True:
            segs = [(0, i), (1, j)]
            r = execute_conc(entry, old_tag, tags, rel, segs, [], w)
            if not deep:        # (the deep pass re-runs the one-window schedules of the first pass to extend them)
                _account_conc(st, key, segs, [], r)
            if r.blocked or len(r.parks) < 2 or r.parks[0] != "parked" or r.parks[1] != "parked":
                break       # A finished before boundary i (sequential) / B finished inside the window: no later j
            if deep:
                i2 = i + 1
                while True:
                    segs3 = [(0, i), (1, j), (0, i2)]
                    r3 = execute_conc(entry, old_tag, tags, rel, segs3, [], w)
                    _account_conc(st, key, segs3, [], r3)
                    if r3.blocked or len(r3.parks) < 3 or r3.parks[2] != "parked":
                        break
                    i2 += 1
                for ent in r.trace:
                    if not ent["failable"]:
                        continue
                    for e in errnos:
                        plan = [{"at": ent["i"], "kind": FAIL, "errno": e}]
                        _account_conc(st, key, segs, plan, execute_conc(entry, old_tag, tags, rel, segs, plan, w))
            j += 1
        if len(st.samples) < 1:
            st.sample({"entry": entry, "writers": 2, "relation": rel, "A_parked_before_boundary": i,
                       "B_windows_tried": j})
    shutil.rmtree(w, ignore_errors=True)


def run(run: Run) -> None:
    present = entries_present()
    missing = [e for e in ENTRY_TAGS if e not in present]
    if "atomic_write_bytes" not in present:
        raise HarnessError("atomic_write_bytes missing")
    R, Rsrc = retry_bound()
    w = _wdir(run.scratch)
    thorough = run.thorough
    combos: List[Tuple[str, str, str]] = []
    for e in present:
        for tag in ENTRY_TAGS[e]:
            for old in ("absent", "old"):
                combos.append((e, old, tag))

    # ---- golden runs (parent): number the calls, check determinism and that raw writes are seen
    golden: Dict[Tuple[str, str, str], List[Dict[str, Any]]] = {}
    gfine: Dict[Tuple[str, str, str], Any] = {}
    doors: set = set()
    lens = []
    for c in combos:
        reference_new(c[0], c[2], w)  # also warms the cache that forked workers inherit
        r1 = execute(c[0], c[1], c[2], [], "alpha", w)
        r2 = execute(c[0], c[1], c[2], [], "alpha", w)
        t1 = [(e["name"], e["occ"], e["site"], e["path"]) for e in r1.trace]
        t2 = [(e["name"], e["occ"], e["site"], e["path"]) for e in r2.trace]
        if t1 != t2 or r1.klass != r2.klass:
            raise HarnessError("harness nondeterministic: two fault-free runs of %s differ" % (c,))
        if not r1.trace:
            raise HarnessError("no I/O call of %s goes through the proxies (seams gone?)" % c[0])
        new_len = len(reference_new(c[0], c[2], w)[0])
        if new_len and not any(e["writer"] or e["name"] == "tmpfile.write" or e["name"].startswith(ESC)
                               for e in r1.trace):
            raise HarnessError("raw writes of %s escape the proxies and the audit hook" % c[0])
        golden[c] = r1.trace
        gfine[c] = r1.fine
        doors.update(r1.doors)
        lens.append(len(r1.trace))
    run.notes["calls_per_fault_free_write_min_max"] = [min(lens), max(lens)]
    run.notes["retry_bound_R"] = R
    run.notes["escape_doors_fault_free"] = sorted(doors)
    run.notes["retry_bound_source"] = Rsrc
    run.notes["entry_points"] = present
    run.notes["call_labels_atomic_write_bytes"] = [e["name"] for e in golden[("atomic_write_bytes", "old", "small")]]

    # ---- phase 1: golden + singles + transients (+ name profiles)
    name_profiles = ["alpha", "digits", "under"] if thorough else ["alpha", "digits"]
    items1 = []
    for c in combos:
        gf = gfine[c]
        items1.append((c, [], "alpha", "golden", gf))
        for ent in golden[c]:
            for f in faults_at(ent, ERRNOS + (["EPERM", "EROFS"] if thorough else [])):
                items1.append((c, [f], "alpha", "single", gf))
        for p in transient_plans(golden[c], R):
            if not thorough and c[2] == "big":
                continue
            items1.append((c, p, "alpha", "transient", gf))
        for prof in name_profiles[1:]:
            # the temp name is an environment answer: fault-free + every kill + every EIO under the other profiles
            if c[2] == "big":
                continue
            items1.append((c, [], prof, "names", gf))
            for ent in golden[c]:
                items1.append((c, [{"at": ent["i"], "kind": KILL_AFTER}], prof, "names", gf))
                if ent["failable"]:
                    items1.append((c, [{"at": ent["i"], "kind": FAIL, "errno": "EIO"}], prof, "names", gf))
    run.pmap(_single_worker, items1, extra=(run.scratch,))
    bad = frozenset(run.sets.get("badkeys", ()))

    # ---- phase 2: pairs (first fault = every fail / short single; second = every later boundary x alphabet)
    errnos1 = ERRNOS
    errnos2 = ERRNOS if thorough else ["EIO", "EACCES", "PermissionError"]
    items2 = []
    for c in combos:
        if not thorough and (c[2] != "small" or (c[1] == "absent" and c[0] != "atomic_write_bytes")):
            # quick: pairs on the small content over an existing destination (+ absent for atomic_write_bytes):
            # the call sequence does not depend on the size, and on old only through final.stat()
            continue
        for ent in golden[c]:
            for f in faults_at(ent, errnos1):
                if f["kind"] in (FAIL, SHORT):
                    items2.append((c, f, gfine[c]))
    run.pmap(_pair_worker, items2, extra=(run.scratch, bad, errnos2))

    # ---- phase 3: retry budget exhausted (R failures of the replace), then any fault at any later boundary
    items3 = []
    for c in combos:
        if not thorough and (c[2] != "small" or (c[1] == "absent" and c[0] != "atomic_write_bytes")):
            continue    # quick: same restriction as the pairs
        for first in exhaust_firsts(golden[c], R, every_write=thorough):
            items3.append((c, first))
    run.pmap(_exhaust_worker, items3, extra=(run.scratch, errnos2))
    # ---- phase 4: two writers in one process, every schedule with one window (thorough: two windows, failing calls)
    items4 = []
    conc_pairs = {}
    for e in present:
        tg = ENTRY_TAGS[e]
        conc_pairs[e] = [("small", "big"), ("big", "small")] if "big" in tg else [("small", "small")]
        if not thorough:
            conc_pairs[e] = conc_pairs[e][:1]
        for old in (("old", "absent") if thorough and e in DEEP_ENTRIES else ("old",)):
            for tags in conc_pairs[e]:
                n0 = len(golden[(e, old, tags[0])])
                for rel in ("same", "sibling"):
                    if rel == "sibling" and not thorough and e not in DEEP_ENTRIES:
                        continue    # quick: sibling files through one entry point per module that owns a write path
                    items4.append((e, old, tags, rel, None))
                    for i in range(n0):
                        items4.append((e, old, tags, rel, i))
    run.pmap(_conc_worker, items4, extra=(run.scratch, False, []))
    if thorough:
        items5 = [it for it in items4 if it[4] is not None and it[1] == "old" and it[2][0] == "small"
                  and it[0] == DEEPER_ENTRY]
        run.pmap(_conc_worker, [it for it in items5 if it[3] == "same"], extra=(run.scratch, True, ["EIO", "EACCES"]))
        run.pmap(_conc_worker, [it for it in items5 if it[3] != "same"], extra=(run.scratch, True, []))
    shutil.rmtree(w, ignore_errors=True)
    run.notes["escaped_calls_seen"] = int(run.n.get("escaped_calls", 0))
    run.notes["two_writer_executions"] = int(run.n.get("plans_writers", 0))
    run.notes["two_writer_executions_overlapping"] = int(run.n.get("writers_overlapping", 0))
    if _SEAMS_ABSENT:
        run.notes["seams_not_imported_by_this_tree"] = list(_SEAMS_ABSENT)
    if run.n.get("writers_schedules_blocked"):
        run.cap("%d two-writer schedules could not be run: a writer waited for something the parked writer holds" %
                int(run.n["writers_schedules_blocked"]))

    run.rule = ("entry point x old in {absent, old} x new in {empty, small, 100 KiB} (composite snapshot writers: "
                "{small, 100 KiB}); per combination: fault-free run numbers the I/O boundaries, then every single "
                "kill-before/kill-after, every failing call x {%s}, every raw write short(n)/partial(n)+kill for "
                "n in {1, len/2, len-1}; every pair (fail|short first, any fault at any later boundary of the "
                "re-numbered trace%s); replace failing k in {1,2,%d,%d} times x {%s} (+ kill around attempt k+1); "
                "replace (%s) failing on all %d attempts x {%s}, then any fault of the alphabet at any later boundary "
                "of that re-numbered trace%s; temp-name profiles %s; two writers of one entry point in one process (same "
                "destination with contents small/100 KiB, and sibling files of one directory%s): A parked before its "
                "boundary i x B parked before its boundary j, then A to the end, then B, every (i, j) + the sequential "
                "order%s; reader probe at every boundary.  Boundaries = every "
                "call through the proxied module globals + every audited file-system call under the directory made "
                "through any other door (esc:*, same alphabet) + from the first such open-for-writing on every "
                "C-call return after which the destination contents / listing changed without a numbered call in "
                "between (kill point + reader).  non-trivial = at least one fault fired, or the two writes really overlap" % (
                    ",".join(ERRNOS + (["EPERM", "EROFS"] if thorough else [])),
                    "" if thorough else "; quick: second errno in {EIO,EACCES,PermissionError}, pairs on (old, small) only, + (absent, small) for atomic_write_bytes",
                    R - 1, R, ",".join(TRANSIENT_ERRNOS),
                    "of every file a composite writer replaces" if thorough else "the first of the write",
                    R, ",".join(TRANSIENT_ERRNOS),
                    "" if thorough else " (quick: same restriction as the pairs)", name_profiles,
                    "; old in {old, absent} for %s, both content assignments" % "/".join(DEEP_ENTRIES) if thorough
                    else "; quick: old=old, A small / B 100 KiB, sibling files for %s only" % "/".join(DEEP_ENTRIES),
                    ("; for %s additionally a second window of A (i2 > i, B ends first) and every failing call of "
                     "the (i, j) schedule x {EIO,EACCES}" % DEEPER_ENTRY) if thorough else ""))
    if missing:
        run.notes["entry_points_absent_in_this_tree"] = missing
    run.assume("rename(2)/os.replace itself is atomic on the local file system; process death, not power loss: "
               "data written but not fsynced survives the kill")
    run.assume("close(2), flush on an unbuffered handle and sleep never fail (they are kill points and reader "
               "boundaries only); a failing call has no effect on the file system")
    run.assume("a raw write may be short only on the planned call; a short write returns at least 1 byte")
    run.assume("zstandard is not installed: _write_lines is explored with codec none only")
    run.assume("pairs whose first or second fault alone already violates the oracle are not re-run "
               "(counted in pairs_subsumed_*): the smaller plan is the witness")
    run.assume("file-system calls that by-pass the proxies are recognised by their audit event (open, os.rename/"
               "replace, os.remove/unlink, os.rmdir, os.mkdir, os.truncate, os.chmod, os.chown, os.link, os.symlink, "
               "os.utime) with a path under the execution's directory; the un-audited use of a handle opened that "
               "way (write / sendfile / truncate) is observed and killed at the granularity of C calls made from "
               "Python code (no short or partial write inside one such call); this run saw %d escaped calls" %
               int(run.n.get("escaped_calls", 0)))
    run.assume("exhausted retries: all R failures carry the same errno; the further fault lies after the last "
               "failed attempt")
    run.assume("two-writer leg: the writers are threads of one process and exchange control only at numbered I/O "
               "boundaries (what a writer does between two boundaries is invisible to the other); at most two windows; "
               "both writers use the same entry point; no kill plans (process death at a boundary = the reader probe "
               "there); a writer that raises without an injected fault is not a violation by itself; while B has not "
               "begun, A's boundaries are those of the single-writer legs and are not probed again; escaped writable "
               "handles are fine-stepped per writer thread")
    run.assume("a seam (os / tempfile / time / Path) that clematis.io.atomic does not import is not required: its "
               "calls are numbered through the other proxies or as esc:* boundaries; temp names drawn from the stdlib "
               "generator are the counting sequence whichever door is used")
    run.assume("readers = _pick_latest_snapshot_path (on the directory and on the strays alone) for snapshot "
               "directories, glob *.jsonl for log directories, both for the generic atomic_write_* entry points")


def replay(case) -> List[Tuple[str, str]]:
    import tempfile
    w = tempfile.mkdtemp(prefix="c08r", dir="/dev/shm" if os.path.isdir("/dev/shm") else None)
    try:
        if case.get("writers"):
            cw = case["writers"]
            rc = execute_conc(case["entry"], case["old"], (case["new"], cw["new2"]), cw["rel"],
                              [(int(t), (None if n is None else int(n))) for t, n in cw["segs"]], case["plan"], w)
            return list(rc.viol)
        r = execute(case["entry"], case["old"], case["new"], case["plan"], case.get("names", "alpha"), w,
                    case.get("fine") or ())
        return list(r.viol)
    finally:
        shutil.rmtree(w, ignore_errors=True)
