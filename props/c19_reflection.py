"""C19 — reflection is gated, budgeted and cannot disturb the turn.

Engine E2 (small-scope enumeration of gate inputs / utterances / snippet lists / limits / backends) x
engine E4 (every declared fail-soft site of the reflection compute / write / telemetry path x exception type,
plus "elapsed > budget" scripted through a fake perf_counter).  Everything runs the REAL
`clematis.engine.orchestrator.core.run_turn` on the shared small worlds of mc/world.py.

Legs
  G  gate matrix      allow x plan-flag{none,plan,stash,both} x dry-run x t4 on/off x backend x cap x limit x world
  I  inputs           gate open, no fault: utterances x snippet lists x summary_tokens x ops cap x backend menu
  F  faults           gate open: fault plan x reflect kind (real / scripted k entries) x cap x index kind; the elapsed-time
                      script includes passes that are NOT a whole number of milliseconds (over the budget by 1/8, 1/4, 3/4 ms,
                      under it by 3/4 ms): the budget is an int of ms, the clock a float of seconds
  P  purity           groups of cases that agree on (agent, turn, slot, text) and differ in everything else
  H  histories        sequences of planner answers on ONE state; each turn = real LLM planner facade (run_policy with the
                      real fixture adapter / validator, which is what produces the stashed request) + run_turn; the gate
                      of turn i must follow turn i's plan, whatever earlier turns requested; the VALUE of the planner's
                      `reflection` key runs over every spelling class the output contract names (JSON bool, int 0/1,
                      boolean-like strings of either polarity in any case / padding, null, "") and both accepted framings
                      (raw JSON, one fenced json block)
  E  environment      every turn execution runs under a scripted process time zone (part of the clock profile); the
                      id/ts table is recomputed in fresh interpreters with other hash seeds and other time zones
  D1 reflect()        direct calls over a larger utterance / snippet-list alphabet (summary clamp, ops cap)
  D2 writer           direct calls of write_reflection_entries: k entries x cap x every subset of failing add calls

Oracle (derived from the property statement and docs/m10/reflection.md, not from the code)
  gate closed  => reflect not called, both memory indexes unchanged, no t3_reflection.jsonl, no new artefact
  gate open    => <= cap new entries, every summary <= limit whitespace tokens, (id, ts) a function of
                  (agent, turn, slot, text) [logical clock is a function of the turn in this harness] and equal
                  under two wall/perf clock profiles and at different real times
  ALWAYS       => run_turn returns; utterance and t1/t2/t4/apply log bytes equal the same turn with
                  t3.allow_reflection=false
  compute-leg fault (reflect raises, fixture missing / disabled / unreadable, elapsed > budget) => memory unchanged
  write-leg fault (index.add raises, writer raises, index missing) => new entries are a sub-multiset of the
                  fault-free run's new entries and never more than cap
  telemetry-leg fault (log helper / append / normaliser raises) => memory exactly as in the fault-free run
"""
from __future__ import annotations

import contextlib
import copy
import dataclasses
import io
import itertools
import json
import logging as _pylogging
import os
import shutil
import sys
import tempfile
import time as _real_time
import types
from typing import Any, Dict, List, Optional, Tuple

from mc.runner import Run, Stats, HarnessError
from mc import world as W

import clematis.engine.orchestrator as orch_pkg
from clematis.engine.orchestrator import core as orch_core
from clematis.engine.orchestrator import logging as orch_logging
from clematis.engine.orchestrator import reflection as writer_mod
import clematis.engine.stages.t3 as t3_pkg
from clematis.engine.util import io_logging as IOL
from clematis.memory.index import InMemoryIndex
from clematis.engine.types import Plan

refl_mod = sys.modules.get("clematis.engine.stages.t3.reflect")

# ----------------------------------------------------------------------------- seams
if not isinstance(refl_mod, types.ModuleType):
    raise HarnessError("seam missing: module clematis.engine.stages.t3.reflect")
for _m, _names in ((refl_mod, ("reflect", "_EMBED_ADAPTER", "FixtureLLMAdapter", "ReflectionBundle", "ReflectionResult")),
                   (orch_core, ("time", "_run_reflection_if_enabled", "log_t3_reflection", "run_turn", "deliberate")),
                   (writer_mod, ("write_reflection_entries",)),
                   (orch_logging, ("_append_jsonl_default", "log_t3_reflection", "IOL")),
                   (IOL, ("normalize_for_identity",)),
                   (t3_pkg, ("deliberate", "run_policy", "select_policy", "make_planner_prompt"))):
    for _n in _names:
        if not hasattr(_m, _n):
            raise HarnessError("seam missing: %s.%s" % (_m.__name__, _n))
if not isinstance(orch_core.time, types.ModuleType):
    raise HarnessError("seam changed: orchestrator.core.time is not the time module")
if "reflection" not in {f.name for f in dataclasses.fields(Plan)}:
    raise HarnessError("seam missing: Plan.reflection")

REAL_REFLECT = refl_mod.reflect
REAL_FIXTURE_ADAPTER = refl_mod.FixtureLLMAdapter
REAL_DELIBERATE = t3_pkg.deliberate
ReflectionBundle = refl_mod.ReflectionBundle
ReflectionResult = refl_mod.ReflectionResult

ISO_LOGS = ("t1.jsonl", "t2.jsonl", "t4.jsonl", "apply.jsonl")
REFL_LOG = "t3_reflection.jsonl"
DEFAULT_CAP = 5          # documented default of scheduler.budgets.ops_reflection
DEFAULT_BUDGET = 6000    # documented default of scheduler.budgets.time_ms_reflection


class Boom(Exception):
    pass


EXC = {"ValueError": ValueError, "KeyError": KeyError, "RuntimeError": RuntimeError, "OSError": OSError,
       "TypeError": TypeError, "ZeroDivisionError": ZeroDivisionError, "Boom": Boom}
EXC_QUICK = ["ValueError", "TypeError", "Boom"]
EXC_ALL = list(EXC)

# ----------------------------------------------------------------------------- alphabets
UTTERS: Dict[str, Optional[str]] = {
    "real": None,                      # the real rule-based `speak`
    "empty": "",
    "hi": "Hi, there!",
    "uni": "Grüße — 世界! ¿Qué tal?  Ωmega",
    "ws": "  a\u00a0b\u3000c\x1fd\u2028e \t f\n\ng  ",
    "punct": "!!! ... ???",
    "long": " ".join("w%d" % i for i in range(300)),
    "nbsp": "\u00a0\u00a0",
    "emoji": "ok \U0001F44D\U0001F3FD fine",
    "nl": "line1\nline2\r\nline3",
    # tokens with INNER punctuation: one raw whitespace token may become several tokens once punctuation is normalised,
    # so a clamp that counts tokens before normalising lets the summary exceed the limit
    "inner": "state-of-the-art don't a/b http://x.y/z 2020-01-01 it's_ok",
}
TURN_UTTERS = ["real", "empty", "hi", "uni", "ws", "punct", "long", "inner"]
_LONG_SNIP = " ".join("s%d" % i for i in range(60))
SNIPS: Dict[str, Optional[list]] = {
    "none": None,                      # no ctx.turn_artifacts at all
    "empty": [],
    "one": ["One snippet."],
    "mixed": ["Two  words", "", "ünï çødé — x", 5, None, "tail"],
    "long": [_LONG_SNIP, _LONG_SNIP + " b", _LONG_SNIP + " c", _LONG_SNIP + " d"],
}
SNIP_ATOMS = ["One.", "", "two  words\there", "ünï çødé", 5, None, _LONG_SNIP]
COMPLETIONS = ["alpha beta gamma delta epsilon", "  spaced \n out\ttext  here ", " ".join("c%d" % i for i in range(200)),
               "uni ünï 世界 ok", ""]
STUB_TEXTS = ["e0 alpha", "e1 beta gamma", "e2 ünï", "e3", "e4 delta", "e5 eps", "e6 zeta"]

# environment profile = (perf_counter start, perf step per call, wall clock, process time zone).  The zone is an
# ENVIRONMENT ANSWER like the clocks: the same turn must write the same entry whatever zone the host is in.  POSIX TZ
# strings (no tzdata needed): UTC, a zone east of UTC without DST; the probe children add a western zone with DST and
# a 45-minute offset.  "P1z0" (P1's clocks in P0's zone) is only executed to classify a P0/P1 difference;
# "PE" keeps the zone the interpreter was started with (used by the fresh-interpreter probe).
PROFILES = {"P0": (1000.0, 0.0, 1.0e9, "UTC0"), "P1": (123456.0, 0.00025, 1.9e9, "JST-9"),
            "P1z0": (123456.0, 0.00025, 1.9e9, "UTC0"), "PE": (1000.0, 0.0, 1.0e9, None)}
PROFS = ["P0", "P1"]
PROBE_ZONES = ["EST5EDT,M3.2.0,M11.1.0", "NPT-5:45"]


class Zone:
    """Sets the process time zone (TZ + tzset) for one execution and restores the previous one."""

    def __init__(self, tz: Optional[str]):
        self.tz = tz
        self.old: Any = None

    def __enter__(self):
        if self.tz is None:
            return self
        if not hasattr(_real_time, "tzset"):
            raise HarnessError("time.tzset unavailable: cannot script the process time zone")
        self.old = os.environ.get("TZ", _MISSING)
        os.environ["TZ"] = self.tz
        _real_time.tzset()
        return self

    def __exit__(self, *a):
        if self.tz is None:
            return False
        if self.old is _MISSING:
            os.environ.pop("TZ", None)
        else:
            os.environ["TZ"] = self.old
        _real_time.tzset()
        return False

DEFAULT_CASE = dict(kind="turn", world="W0", agent="A", turn=1, text="apple", utter="hi", snips="one",
                    allow=True, flag="plan", dry=False, t4=True, tokens=8, cap=2, topk=3, embed=True,
                    backend="rulebased", budget=None, reflect="real", memidx="sep", faults=[], delay=0)


def norm(case: dict) -> dict:
    c = dict(DEFAULT_CASE)
    c.update(case)
    c["faults"] = [dict(f) for f in (c.get("faults") or [])]
    return c


def jkey(x) -> str:
    return json.dumps(x, sort_keys=True, ensure_ascii=True, default=repr)


# ----------------------------------------------------------------------------- clock
class FakeClock:
    """Stands in for the `time` module inside orchestrator.core (perf_counter/time/sleep scripted)."""

    def __init__(self, prof: str):
        self.t, self.step, self.wall = PROFILES[prof][:3]
        self.calls = 0

    def perf_counter(self):
        v = self.t
        self.t += self.step
        self.calls += 1
        return v

    def monotonic(self):
        return self.perf_counter()

    def time(self):
        return self.wall + self.t

    def sleep(self, s):
        self.t += max(0.0, float(s))

    def advance_ms(self, ms):
        self.t += float(ms) / 1000.0

    def __getattr__(self, name):
        return getattr(_real_time, name)


_MISSING = object()


class Patches:
    def __init__(self):
        self.undo: List[Tuple[Any, str, Any]] = []

    def set(self, obj, name, value):
        old = vars(obj).get(name, _MISSING)
        self.undo.append((obj, name, old))
        setattr(obj, name, value)

    def close(self):
        for obj, name, old in reversed(self.undo):
            if old is _MISSING:
                try:
                    delattr(obj, name)
                except AttributeError:
                    pass
            else:
                setattr(obj, name, old)
        self.undo = []


# ----------------------------------------------------------------------------- worker environment
class Env:
    """Per-process scratch: fixture files, id/ts function table."""

    def __init__(self, scratch_root: str):
        self.scratch = os.path.join(scratch_root, "c19-%d" % os.getpid())
        os.makedirs(self.scratch, exist_ok=True)
        fx = os.path.join(self.scratch, "fixtures")
        os.makedirs(fx, exist_ok=True)
        self.fx_ok = os.path.join(fx, "ok.jsonl")
        with open(self.fx_ok, "w", encoding="utf-8") as f:
            f.write(json.dumps({"prompt_hash": "0" * 64, "completion": "unrelated entry"}) + "\n")
        self.fx_bad = os.path.join(fx, "bad.jsonl")
        with open(self.fx_bad, "w", encoding="utf-8") as f:
            f.write("{not json\n")
        self.fx_missing = os.path.join(fx, "does-not-exist.jsonl")
        self.fd: Dict[str, Tuple[str, str, dict, str]] = {}
        _pylogging.disable(_pylogging.CRITICAL)

    def close(self):
        shutil.rmtree(self.scratch, ignore_errors=True)


def _all_prompts_adapter(completion: str):
    """The real FixtureLLMAdapter over a real file, with a store that holds `completion` for every prompt
    (equivalent to a fixture file listing every enumerated prompt)."""
    from clematis.adapters import llm as llm_mod
    if not hasattr(llm_mod, "_prompt_hash"):
        raise HarnessError("seam missing: clematis.adapters.llm._prompt_hash")

    class AllPrompts(REAL_FIXTURE_ADAPTER):  # type: ignore[misc,valid-type]
        def generate(self, prompt, max_tokens, temperature):
            if not hasattr(self, "_map"):
                raise HarnessError("seam missing: FixtureLLMAdapter._map")
            self._map.setdefault(llm_mod._prompt_hash(prompt), completion)
            return REAL_FIXTURE_ADAPTER.generate(self, prompt, max_tokens, temperature)

    return AllPrompts


def build_cfg(c: dict, env: Env, snap_dir: Optional[str]):
    refl: Dict[str, Any] = {"summary_tokens": c["tokens"], "topk_snippets": c["topk"], "embed": c["embed"]}
    t3: Dict[str, Any] = {"allow_reflection": bool(c["allow"]), "reflection": refl}
    budgets: Dict[str, Any] = {}
    if c["cap"] is not None:
        budgets["ops_reflection"] = c["cap"]
    hand_budget = c["budget"] is not None and c["budget"] < 1     # below the validator's minimum: set after validation
    if c["budget"] is not None:
        budgets["time_ms_reflection"] = 1 if hand_budget else c["budget"]
    over: Dict[str, Any] = {"t3": t3, "t4": {"enabled": bool(c["t4"])}}
    if budgets:
        over["scheduler"] = {"budgets": budgets}
    be = c["backend"]
    post = None
    if be != "rulebased":
        refl["backend"] = "llm"
        kind = be.split(":")[1]
        path = {"present": env.fx_ok, "nomatch": env.fx_ok, "nofile": env.fx_missing, "badjson": env.fx_bad,
                "disabled": env.fx_ok, "emptypath": env.fx_ok}[kind]
        t3["llm"] = {"fixtures": {"enabled": True, "path": path}}
        post = kind
    cfg = W.make_cfg(over, snap_dir=snap_dir)
    # states the validator rejects but a hand-built runtime config can still carry
    if post == "disabled":
        cfg["t3"]["llm"]["fixtures"]["enabled"] = False
    elif post == "emptypath":
        cfg["t3"]["llm"]["fixtures"]["path"] = ""
    if hand_budget:
        cfg["scheduler"]["budgets"]["time_ms_reflection"] = c["budget"]
    return cfg


def _idx_eps(idx) -> Optional[List[str]]:
    d = W.index_digest(idx)
    if d is None:
        return None
    return [jkey(e) for e in d["eps"]]


def _budget_of(c: dict):
    return c["budget"] if c["budget"] is not None else DEFAULT_BUDGET


# The elapsed time the engine can measure for a pass that is scripted to take `delay` ms lies in
# [delay, delay + CLOCK_READS_SLACK * (largest per-read step of any clock profile)]: the scripted clocks advance by a fixed
# step on every read, and an implementation may read its clock a few times around the pass.  A case is in the alphabet
# only when that whole interval is on ONE side of the budget, at least TIMING_MARGIN_MS away from it.
TIMING_MARGIN_MS = 0.125
CLOCK_READS_SLACK = 2


def over_budget(c: dict) -> bool:
    """True: every admissible measurement of this case's pass exceeds the wall budget; False: none does."""
    budget = _budget_of(c)
    lo = float(c["delay"])
    hi = lo + CLOCK_READS_SLACK * 1000.0 * max(PROFILES[p][1] for p in PROFILES)
    if lo >= budget + TIMING_MARGIN_MS:
        return True
    if hi <= budget - TIMING_MARGIN_MS:
        return False
    raise HarnessError("timing alphabet: delay %r ms is not clearly on one side of budget %r ms (measurable elapsed in [%r, %r])"
                       % (c["delay"], budget, lo, hi))


def fault_legs(c: dict) -> set:
    legs = set()
    for f in c["faults"]:
        s = f["site"]
        if s.startswith("reflect:"):
            legs.add("compute")
        elif s in ("add", "writer"):
            legs.add("write")
        elif s.startswith("log:"):
            legs.add("telemetry")
        elif s == "embed":
            legs.add("embed")
        else:
            raise HarnessError("unknown fault site %r" % s)
    if c["memidx"] in ("absent", "none", "noadd"):
        legs.add("write")
    if c["backend"] != "rulebased" and c["reflect"] == "real":
        kind = c["backend"].split(":")[1]
        if kind != "present" or COMPLETIONS[int(c["backend"].split(":")[2])] == "":
            legs.add("compute")       # fixture missing / unreadable / disabled / empty completion
    if over_budget(c):
        legs.add("compute")           # elapsed > budget
    return legs


def fault_label(c: dict) -> str:
    parts = []
    for f in c["faults"]:
        parts.append(f["site"])
    if c["memidx"] in ("absent", "none", "noadd"):
        parts.append("index-" + c["memidx"])
    if c["backend"] != "rulebased" and c["reflect"] == "real":
        kind = c["backend"].split(":")[1]
        if kind != "present":
            parts.append("fixture-" + kind)
        elif COMPLETIONS[int(c["backend"].split(":")[2])] == "":
            parts.append("fixture-empty-completion")
    if over_budget(c):
        parts.append("timeout" if c["delay"] - _budget_of(c) >= 1 else "timeout-by-less-than-1ms")
    return "+".join(parts) or "none"


def closed_label(c: dict) -> str:
    parts = []
    if not c["allow"]:
        parts.append("allow=0")
    if c["flag"] == "none":
        parts.append("flag=0")
    if c["dry"]:
        parts.append("dry-run")
    return ",".join(parts)


def is_open(c: dict) -> bool:
    return bool(c["allow"]) and c["flag"] != "none" and not c["dry"]


# ----------------------------------------------------------------------------- one execution
def execute(case: dict, prof: str, env: Env) -> dict:
    with Zone(PROFILES[prof][3]):
        if norm(case).get("kind") == "history":
            return _execute_history(case, prof, env)
        return _execute_turn(case, prof, env)


def _execute_turn(case: dict, prof: str, env: Env) -> dict:
    c = norm(case)
    W.reset_globals()
    ex = W.Exec(env.scratch, "t")
    ex.activate()
    P = Patches()
    rec = {"calls": 0, "add_calls": 0, "fired": 0, "bundle": None, "add_failed": 0, "add_ok_after_fail": 0}
    clock = FakeClock(prof)
    faults = {f["site"]: f for f in c["faults"]}

    def mk(f):
        rec["fired"] += 1
        return EXC[f["exc"]]("injected %s" % f["site"])

    try:
        cfg = build_cfg(c, env, ex.snap_dir)
        state = W.make_world(c["world"])
        t2idx = state["mem_index"]
        mi = c["memidx"]
        midx = None
        if mi == "sep":
            midx = InMemoryIndex()
            state["memory_index"] = midx
        elif mi == "alias":
            midx = t2idx
            state["memory_index"] = midx
        elif mi == "none":
            state["memory_index"] = None
        elif mi == "noadd":
            state["memory_index"] = types.SimpleNamespace(kind="noadd")
        elif mi != "absent":
            raise HarnessError("unknown memidx %r" % mi)
        if midx is not None:
            real_add = midx.add
            fa = faults.get("add")

            def add(ep, _real_add=real_add, _fa=fa):
                rec["add_calls"] += 1
                n = rec["add_calls"]
                if _fa is not None and (_fa["at"] == "all" or n in _fa["at"]):
                    rec["add_failed"] += 1
                    raise mk(_fa)
                if rec["add_failed"]:
                    rec["add_ok_after_fail"] += 1
                return _real_add(ep)

            midx.add = add
        if c["flag"] in ("stash", "both"):
            state["_planner_reflection_flag"] = True
        before_t2 = _idx_eps(t2idx)
        before_m = _idx_eps(midx) if (midx is not None and midx is not t2idx) else None

        ctx = W.make_ctx(cfg, c["agent"], c["turn"])
        if c["dry"]:
            ctx._dry_run_until_t4 = True
        if SNIPS[c["snips"]] is not None:
            ctx.turn_artifacts = {"t2_snippets": copy.deepcopy(SNIPS[c["snips"]])}

        # --- seams
        P.set(orch_core, "time", clock)
        if c["flag"] in ("plan", "both"):
            def delib(_ctx, _state, bundle):
                return dataclasses.replace(REAL_DELIBERATE(bundle), reflection=True)
            P.set(orch_pkg, "t3_deliberate", delib)
        if UTTERS[c["utter"]] is not None:
            _u = UTTERS[c["utter"]]
            P.set(orch_pkg, "t3_dialogue", lambda dialog_bundle, plan: _u)

        stub_k = int(c["reflect"].split(":")[1]) if c["reflect"].startswith("stub:") else None

        def reflect_wrapper(bundle, cfg_root, embedder=None):
            rec["calls"] += 1
            rec["bundle"] = [bundle.utter, list(bundle.snippets or [])]
            if "reflect:before" in faults:
                raise mk(faults["reflect:before"])
            if stub_k is not None:
                ents = [{"owner": str(getattr(bundle.ctx, "agent_id", "?")), "ts": "stub", "text": STUB_TEXTS[i],
                         "tags": ["reflection"], "kind": "summary"} for i in range(stub_k)]
                res = ReflectionResult(summary=(STUB_TEXTS[0] if stub_k else ""), memory_entries=ents,
                                       metrics={"backend": "stub", "summary_len": 2 if stub_k else 0})
            else:
                res = REAL_REFLECT(bundle, cfg_root, embedder=embedder)
            if c["delay"]:
                clock.advance_ms(c["delay"])
            if "reflect:after" in faults:
                raise mk(faults["reflect:after"])
            return res

        P.set(refl_mod, "reflect", reflect_wrapper)
        if "embed" in faults:
            fe = faults["embed"]

            class _BadEmbed:
                def encode(self, texts):
                    raise mk(fe)
            P.set(refl_mod, "_EMBED_ADAPTER", _BadEmbed())
        if c["backend"].startswith("llm:present:"):
            P.set(refl_mod, "FixtureLLMAdapter", _all_prompts_adapter(COMPLETIONS[int(c["backend"].split(":")[2])]))
        if "writer" in faults:
            fw = faults["writer"]

            def bad_writer(*a, **k):
                raise mk(fw)
            P.set(writer_mod, "write_reflection_entries", bad_writer)
        if "log:fn" in faults:
            fl = faults["log:fn"]

            def bad_log(*a, **k):
                raise mk(fl)
            P.set(orch_core, "log_t3_reflection", bad_log)
        if "log:append" in faults:
            fp = faults["log:append"]
            real_default = orch_logging._append_jsonl_default

            def bad_append(file_path, payload, *a, **k):
                if os.path.basename(str(file_path)) == REFL_LOG:
                    raise mk(fp)
                return real_default(file_path, payload, *a, **k)
            P.set(orch_logging, "_append_jsonl_default", bad_append)
        if "log:normalize" in faults:
            fn_ = faults["log:normalize"]
            real_norm = IOL.normalize_for_identity

            def bad_norm(name, recd):
                if os.path.basename(str(name)) == REFL_LOG:
                    raise mk(fn_)
                return real_norm(name, recd)
            P.set(IOL, "normalize_for_identity", bad_norm)

        ok, err, line = True, None, None
        try:
            with contextlib.redirect_stderr(io.StringIO()):
                res = orch_core.run_turn(ctx, state, c["text"])
            line = getattr(res, "line", None)
            if not isinstance(line, str):
                ok, err = False, "run_turn returned %r" % (res,)
        except HarnessError:
            raise
        except Exception as e:  # the turn did not complete
            ok, err = False, "%s: %s" % (type(e).__name__, e)
        P.close()

        after_t2 = _idx_eps(t2idx)
        after_m = _idx_eps(midx) if (midx is not None and midx is not t2idx) else None
        new_all: List[str] = []
        prefix_ok = True
        for b, a in ((before_m, after_m), (before_t2, after_t2)):
            if b is None:
                continue
            if a[:len(b)] != b:
                prefix_ok = False
            new_all.extend(a[len(b):])
        # anything that appeared under another well-known key counts as written memory too
        extra_idx = state.get("memory_index")
        if extra_idx is not None and extra_idx is not midx and mi in ("absent", "none"):
            new_all.extend(_idx_eps(extra_idx) or [])
        logs = ex.logs()
        refl_lines = []
        if REFL_LOG in logs:
            for ln in logs[REFL_LOG].decode("utf-8", "replace").splitlines():
                try:
                    refl_lines.append(json.loads(ln))
                except Exception:
                    refl_lines.append({"_unparsable": ln})
        return {"ok": ok, "err": err, "line": line, "logs": logs, "snaps": sorted(ex.snaps().keys()),
                "calls": rec["calls"], "add_calls": rec["add_calls"], "fired": rec["fired"], "bundle": rec["bundle"],
                "add_ok_after_fail": rec["add_ok_after_fail"],
                "new": new_all, "prefix_ok": prefix_ok, "refl": refl_lines, "clock_calls": clock.calls}
    finally:
        P.close()
        ex.close()


def _sans_vec(ej: str) -> str:
    d = json.loads(ej)
    d.pop("vec_full", None)
    return jkey(d)


def _submultiset(a: List[str], b: List[str]) -> bool:
    pool = list(b)
    for x in a:
        if x in pool:
            pool.remove(x)
        else:
            return False
    return True


def _short(s, n=160):
    s = s if isinstance(s, str) else repr(s)
    return s if len(s) <= n else s[:n] + "...(%d chars)" % len(s)


# ----------------------------------------------------------------------------- oracle for one full-turn case
def baseline_of(c: dict) -> dict:
    b = dict(c)
    b.update(allow=False, faults=[], delay=0, reflect="real", memidx="sep")
    return b


def reference_of(c: dict) -> dict:
    r = dict(c)
    r.update(faults=[], delay=0)
    if c["memidx"] in ("absent", "none", "noadd"):
        r["memidx"] = "sep"
    if c["backend"] != "rulebased" and c["reflect"] == "real":
        r["backend"] = "llm:present:0"
    return r


def _classify_profile_difference(c: dict, obs: Dict[str, dict], env: Env, st: Optional[Stats]) -> Tuple[str, str]:
    """P0 and P1 differ in the clocks AND in the process time zone: one more execution with P1's clocks in P0's zone
    tells which environment answer the written entries depend on."""
    h = execute(c, "P1z0", env)
    if st is not None:
        st.add("transitions")
        st.add("aux_executions")
    if h["ok"] and h["new"] == obs["P0"]["new"]:
        return ("purity:time-zone", "new memory entries depend on the process time zone (TZ=%s vs TZ=%s, same clocks): %s vs %s" % (
            PROFILES["P0"][3], PROFILES["P1"][3], _short(repr(obs["P0"]["new"]), 220), _short(repr(obs["P1"]["new"]), 220)))
    return ("purity:clock-profile", "new memory entries differ between clock profiles: %s vs %s" % (
        _short(repr(obs["P0"]["new"]), 220), _short(repr(obs["P1"]["new"]), 220)))


def check_turn_case(case: dict, env: Env, cache: Dict[str, dict], st: Optional[Stats] = None):
    """Returns (violations[(sig, what)], outcome_class)."""
    c = norm(case)
    out: List[Tuple[str, str]] = []

    def cached(cc, prof):
        k = jkey(cc) + prof
        if k not in cache:
            cache[k] = execute(cc, prof, env)
            if st is not None:
                st.add("transitions")
                st.add("aux_executions")
        return cache[k]

    bcase = baseline_of(c)
    legs = fault_legs(c)
    need_ref = "compute" not in legs and (bool(legs) or c["delay"] > 0)
    rcase = reference_of(c) if need_ref else None
    open_ = is_open(c)
    stub = c["reflect"].startswith("stub:")
    cap = c["cap"] if c["cap"] is not None else DEFAULT_CAP
    flabel = fault_label(c)
    bclass = "stub" if stub else c["backend"].split(":")[0]
    obs: Dict[str, dict] = {}
    ident = jkey(c)
    for prof in PROFS:
        o = execute(c, prof, env)
        obs[prof] = o
        if st is not None:
            st.add("transitions")
        b = cached(bcase, prof)
        if not b["ok"]:
            raise HarnessError("baseline turn (reflection off) did not complete: %s / %s" % (b["err"], jkey(bcase)))
        if jkey(bcase) == ident:
            # same case executed twice: any difference is harness nondeterminism, not a property verdict
            if (o["ok"], o["line"], o["logs"], o["new"]) != (b["ok"], b["line"], b["logs"], b["new"]):
                raise HarnessError("harness nondeterministic: two executions of %s differ" % ident)
        tag = "[%s] " % prof
        # ---- ALWAYS: the turn completes and its artefacts equal the reflection-off turn
        if not o["ok"]:
            out.append(("turn-crashed:" + (flabel if open_ else "gate-closed"),
                        tag + "run_turn did not complete (%s); reflection-off turn returns %r" % (o["err"], _short(b["line"], 60))))
            continue
        if o["line"] != b["line"]:
            out.append(("isolation:utterance", tag + "utterance %r != reflection-off utterance %r" % (
                _short(o["line"], 80), _short(b["line"], 80))))
        for f in ISO_LOGS:
            if o["logs"].get(f) != b["logs"].get(f):
                out.append(("isolation:" + f, tag + "%s differs from the reflection-off turn: %r vs %r" % (
                    f, _short(repr(o["logs"].get(f)), 200), _short(repr(b["logs"].get(f)), 200))))
        n_new = len(o["new"])
        if not open_:
            cl = closed_label(c)
            if o["calls"]:
                out.append(("gate-closed:reflect-called:" + cl, tag + "reflect() called %d time(s) with gate closed (%s)" % (o["calls"], cl)))
            if n_new or not o["prefix_ok"]:
                out.append(("gate-closed:memory-written:" + cl, tag + "memory index changed with gate closed (%s): %s" % (
                    cl, _short(repr(o["new"]), 200))))
            if REFL_LOG in o["logs"]:
                out.append(("gate-closed:telemetry-logged:" + cl, tag + "%s written with gate closed (%s): %s" % (
                    REFL_LOG, cl, _short(repr(o["logs"][REFL_LOG]), 200))))
            elif set(o["logs"]) != set(b["logs"]) or o["snaps"] != b["snaps"]:
                out.append(("gate-closed:artifact-set-differs:" + cl, tag + "artefacts %s/%s vs reflection-off %s/%s" % (
                    sorted(o["logs"]), o["snaps"], sorted(b["logs"]), b["snaps"])))
            continue
        # ---- gate open
        if not o["prefix_ok"]:
            out.append(("memory:existing-entries-altered", tag + "entries present before the turn were changed or removed"))
        if n_new > cap:
            out.append(("cap:exceeded:" + bclass, tag + "%d new memory entries with ops_reflection=%s (%s)" % (n_new, c["cap"], flabel)))
        if not stub:
            for ej in o["new"]:
                e = json.loads(ej)
                ntok = len(str(e.get("text", "")).split())
                if ntok > c["tokens"]:
                    out.append(("summary:over-limit:" + bclass, tag + "stored summary has %d whitespace tokens, limit %d: %r" % (
                        ntok, c["tokens"], _short(e.get("text"), 80))))
            for rl in o["refl"]:
                sl = rl.get("summary_len")
                if isinstance(sl, int) and sl > c["tokens"]:
                    out.append(("summary:logged-len-over-limit:" + bclass, tag + "t3_reflection summary_len=%d, limit %d" % (sl, c["tokens"])))
        if "compute" in legs:
            if n_new:
                out.append(("compute-fault:memory-written:" + flabel, tag + "%d entries written although the compute leg failed (%s): %s" % (
                    n_new, flabel, _short(repr(o["new"]), 200))))
        elif need_ref:
            r = cached(rcase, prof)
            if not r["ok"]:
                raise HarnessError("fault-free reference turn did not complete: %s / %s" % (r["err"], jkey(rcase)))
            if "write" in legs:
                if not _submultiset(o["new"], r["new"]):
                    out.append(("write-fault:not-subset:" + flabel, tag + "entries after a write-leg fault are not a subset of the fault-free run's: %s vs %s" % (
                        _short(repr(o["new"]), 200), _short(repr(r["new"]), 200))))
            elif "embed" in legs:
                if not _submultiset([_sans_vec(x) for x in o["new"]], [_sans_vec(x) for x in r["new"]]):
                    out.append(("embed-fault:not-subset", tag + "entries after an embedder fault differ (beyond vec_full) from the fault-free run's"))
            elif "telemetry" in legs:
                if o["new"] != r["new"]:
                    out.append(("telemetry-fault:memory-differs:" + flabel, tag + "memory %s != fault-free memory %s" % (
                        _short(repr(o["new"]), 200), _short(repr(r["new"]), 200))))
            else:  # delay below budget
                if o["new"] != r["new"]:
                    out.append(("purity:elapsed-time", tag + "memory depends on elapsed time below the budget (delay %sms): %s vs %s" % (
                        c["delay"], _short(repr(o["new"]), 200), _short(repr(r["new"]), 200))))
    # ---- purity across environment profiles (clocks, process time zone, and real time: the executions happen at
    #      different wall times)
    if all(obs[p]["ok"] for p in PROFS) and obs["P0"]["new"] != obs["P1"]["new"]:
        out.append(_classify_profile_difference(c, obs, env, st))
    # ---- (id, ts) as a function of (agent, turn, slot, text): table shared by every case this process executes
    if open_ and "write" not in legs and "embed" not in legs:
        for prof in PROFS:
            o = obs[prof]
            if not o["ok"]:
                continue
            for slot, ej in enumerate(o["new"]):
                e = json.loads(ej)
                k = jkey([c["agent"], c["turn"], slot, e.get("text")])
                v = (str(e.get("id")), str(e.get("ts")))
                old = env.fd.get(k)
                if old is None:
                    env.fd[k] = (v[0], v[1], c, prof)
                    if st is not None:
                        st.distinct("fd_keys", k)
                        st.distinct("fd_pairs", [k, v[0], v[1]])
                elif (old[0], old[1]) != v:
                    which = "id" if old[0] != v[0] else "ts"
                    out.append(("purity:%s-not-a-function-of-agent-turn-slot-text" % which,
                                "key %s maps to %r here and to %r in an earlier execution" % (_short(k, 120), v, (old[0], old[1]))))
                    if st is not None:
                        st.violation("purity:%s-not-a-function-of-agent-turn-slot-text" % which,
                                     "(agent,turn,slot,text)=%s -> %r vs %r" % (_short(k, 120), v, (old[0], old[1])),
                                     {"kind": "pair", "a": old[2], "pa": old[3], "b": c, "pb": prof})
    o0 = obs["P0"]
    outcome = ["open" if open_ else "closed", sorted(legs), bool(o0["calls"]), len(o0["new"]), REFL_LOG in o0["logs"],
               sorted({str(r.get("reason")) for r in o0["refl"]}), o0["ok"]]
    return out, outcome, obs


# ----------------------------------------------------------------------------- enumeration of the turn legs
def _faults_menu(excs: List[str], thorough: bool) -> List[dict]:
    """Single-fault plans (plus a few pairs in the thorough tier). Each item: partial case dict."""
    items: List[dict] = []
    for x in excs:
        items.append({"faults": [{"site": "reflect:before", "exc": x}]})
        items.append({"faults": [{"site": "reflect:after", "exc": x}]})
        items.append({"faults": [{"site": "embed", "exc": x}]})
        for at in ([1], [2], [1, 2], [3], "all"):
            items.append({"faults": [{"site": "add", "exc": x, "at": at}]})
        items.append({"faults": [{"site": "writer", "exc": x}]})
        for s in ("log:fn", "log:append", "log:normalize"):
            items.append({"faults": [{"site": s, "exc": x}]})
    for mi in ("absent", "none", "noadd"):
        items.append({"memidx": mi})
    for budget, delays in ((5, (0, 4, 6, 1000)), (None, (1000, 7000)), (1, (0, 2))):
        for d in delays:
            items.append({"budget": budget, "delay": d})
    # the LOWER END of the documented domain of the budget (docs/m10/reflection.md: "int ms >= 0"): a budget of 0 ms is
    # the tightest limit, not "no limit" - every pass that takes measurable time exceeds it (only "within budget" cases
    # do not exist for it).  The engine reads the raw cfg, so the value reaches it whatever a config validator thinks.
    for d in ((0.25, 1, 6, 1000) if thorough else (0.25, 6)):
        items.append({"budget": 0, "delay": d})
    # elapsed times that are NOT whole milliseconds, on both sides of the budget: the clock is a float of seconds, the
    # budget an int of milliseconds - over by 1/8, 1/4, 3/4 ms (below and above the next half / whole ms), under by 3/4
    for budget, delays in ((5, (4.25, 5.125, 5.25, 5.75)), (1, (0.25, 1.25))):
        for d in delays:
            items.append({"budget": budget, "delay": d})
    if thorough:
        for budget, delays in ((5, (5.375, 5.5, 6.5)), (1, (1.125, 1.75, 2.5)), (None, (5999.25, 6000.125, 6000.25, 6000.75)),
                               (2, (1.25, 2.25, 2.5))):
            for d in delays:
                items.append({"budget": budget, "delay": d})
    if thorough:
        x = "RuntimeError"
        items.append({"faults": [{"site": "add", "exc": x, "at": [1]}, {"site": "log:append", "exc": x}]})
        items.append({"faults": [{"site": "reflect:after", "exc": x}, {"site": "log:fn", "exc": x}]})
        items.append({"faults": [{"site": "writer", "exc": x}, {"site": "log:append", "exc": x}]})
        items.append({"faults": [{"site": "log:fn", "exc": x}], "budget": 5, "delay": 6})
        items.append({"faults": [{"site": "add", "exc": x, "at": "all"}], "budget": 5, "delay": 6})
        items.append({"faults": [{"site": "embed", "exc": x}, {"site": "add", "exc": x, "at": [1]}]})
    return items


def _group(cases: List[dict]) -> List[dict]:
    """Group cases that share the reflection-off baseline into one work item (keeps the baseline cache hot)."""
    groups: Dict[str, List[dict]] = {}
    order: List[str] = []
    for cs in cases:
        k = jkey(baseline_of(norm(cs)))
        if k not in groups:
            groups[k] = []
            order.append(k)
        groups[k].append(cs)
    return [{"cases": groups[k]} for k in order]


def enumerate_turn_cases(thorough: bool, seed: int) -> Dict[str, List[dict]]:
    legs: Dict[str, List[dict]] = {}
    # ---- G: gate matrix
    G = []
    toks = (0, 2, 128) if thorough else (2,)
    for allow, flag, dry, t4 in itertools.product((False, True), ("none", "plan", "stash", "both"), (False, True), (True, False)):
        for backend, reflect in (("rulebased", "real"), ("llm:present:0", "real"), ("rulebased", "stub:3")):
            for cap in (0, 1, 5):
                for tk in toks:
                    for world, utter in (("W0", "hi"), ("W1", "real")):
                        for mi in ("sep", "alias"):
                            G.append(dict(leg="G", allow=allow, flag=flag, dry=dry, t4=t4, backend=backend, reflect=reflect,
                                          cap=cap, tokens=tk, world=world, utter=utter, memidx=mi))
    legs["G"] = G
    # ---- I: inputs (gate open, no fault)
    I = []
    if thorough:
        utters = TURN_UTTERS
        wsn = [("W0", s) for s in ("none", "empty", "one", "mixed", "long")] + [("W1", "none")]
        tokens = (0, 1, 2, 128)
        caps = (0, 1, 5, None)
        backends = ["rulebased"] + ["llm:present:%d" % i for i in range(len(COMPLETIONS))] + \
                   ["llm:nofile", "llm:nomatch", "llm:badjson", "llm:disabled", "llm:emptypath"]
        topks = (0, 3)
        embeds = (True, False)
        ats = (("A", 1), ("B", 2))
    else:
        utters = ["real", "hi", "ws", "long", "punct", "inner"]
        wsn = [("W0", "one"), ("W0", "mixed"), ("W1", "none")]
        tokens = (0, 1, 2, 128)
        caps = (0, 1, 5)
        backends = ["rulebased", "llm:present:0", "llm:present:2", "llm:present:4", "llm:nomatch", "llm:nofile", "llm:disabled"]
        topks = (3,)
        embeds = (True,)
        ats = (("A", 1),)
    for utter in utters:
        for world, sn in wsn:
            for tk in tokens:
                for cap in caps:
                    for be in backends:
                        for topk in topks:
                            for emb in embeds:
                                if not emb and be != "rulebased":
                                    continue
                                for ag, tn in ats:
                                    if (ag, tn) != ("A", 1) and (tk not in (2, 128) or cap not in (1, None)):
                                        continue   # second agent/turn: limits that write something
                                    I.append(dict(leg="I", utter=utter, world=world, snips=sn, tokens=tk, cap=cap, backend=be,
                                                  topk=topk, embed=emb, agent=ag, turn=tn))
    legs["I"] = I
    # ---- F: fault plans (gate open)
    F = []
    excs = EXC_ALL if thorough else EXC_QUICK
    menu = _faults_menu(excs, thorough)
    kinds = [("rulebased", "real"), ("llm:present:0", "real")] + [("rulebased", "stub:%d" % k) for k in ((0, 1, 2, 3, 6) if thorough else (2, 3, 6))]
    caps = (0, 1, 2, 5) if thorough else (1, 2, 5)
    for it in menu:
        sites = [f["site"] for f in it.get("faults", [])]
        for backend, reflect in kinds:
            if "embed" in sites and reflect != "real":
                continue        # the scripted reflect does not embed
            for cap in caps:
                for mi in ("sep", "alias"):
                    if "memidx" in it and mi == "alias":
                        continue
                    cs = dict(leg="F", backend=backend, reflect=reflect, cap=cap, memidx=mi, world="W1", utter="real")
                    cs.update(copy.deepcopy(it))
                    F.append(cs)
    legs["F"] = F
    # ---- P: purity groups — same (agent, turn, slot, text), everything else varies
    Pg = []
    for ag, tn in (("A", 1), ("B", 2)) if thorough else (("A", 1),):
        grp = []
        for world, text, utter in (("W0", "apple", "hi"), ("W1", "zzz", "real"), ("W1", "apple", "uni")):
            for cap in (3, 5):
                for mi in ("sep", "alias"):
                    for budget, tk, be in ((None, 2, "rulebased"), (5, 128, "llm:present:0")):
                        grp.append(dict(leg="P", agent=ag, turn=tn, world=world, text=text, utter=utter, cap=cap, memidx=mi,
                                        budget=budget, tokens=tk, backend=be, reflect="stub:3"))
        Pg.append(grp)
        grp = []
        for text in ("apple", "zzz", "pear fig"):
            for cap in (1, 5):
                for mi in ("sep", "alias"):
                    for budget in (None, 5):
                        for t4 in (True, False):
                            grp.append(dict(leg="P", agent=ag, turn=tn, world="W0", text=text, utter="uni", snips="mixed", cap=cap,
                                            memidx=mi, budget=budget, t4=t4, tokens=128))
        Pg.append(grp)
    legs["P"] = Pg  # list of groups
    return legs


def _turn_worker(chunk, st: Stats, scratch_root: str):
    env = Env(scratch_root)
    try:
        for item in chunk:
            cache: Dict[str, dict] = {}
            for case in item["cases"]:
                c = norm(case)
                res, outcome, obs = check_turn_case(case, env, cache, st)
                st.add("validated")
                st.add("turn_cases")
                st.distinct("states", jkey(c))
                st.distinct("outcomes", outcome)
                o0 = obs["P0"]
                open_ = is_open(c)
                if open_ and o0["calls"]:
                    st.add("nontrivial")
                    st.add("n_reflect_ran")
                    if o0["new"]:
                        st.add("n_cases_with_entries_written")
                elif (not open_) and (c["allow"] or c["flag"] != "none"):
                    st.add("nontrivial")
                    st.add("n_closed_with_some_gate_input_set")
                if o0["add_ok_after_fail"]:
                    st.add("n_cases_add_continued_after_a_failed_add")   # observed, allowed (see assumptions)
                if c["faults"]:
                    st.add("n_fault_cases_armed")
                    if o0["fired"]:
                        st.add("n_fault_cases_fired")
                if c["delay"] != int(c["delay"]):
                    st.add("n_cases_with_a_sub_millisecond_elapsed_time")
                if over_budget(c):
                    st.add("n_timeout_cases")
                    if any(str(r.get("reason")) == "reflection_timeout" for r in o0["refl"]):
                        st.add("n_timeout_reason_logged")
                st.notes["max_new_entries"] = max(int(st.notes.get("max_new_entries", 0)), len(o0["new"]))
                for sig, what in res:
                    if sig.startswith("purity:") and sig.endswith("agent-turn-slot-text"):
                        continue   # reported with its pair witness inside check_turn_case
                    st.violation(sig, what, case)
                if len(st.samples) < 2 and open_ and o0["new"]:
                    st.sample({"case": case, "new_entries": [json.loads(_sans_vec(x)) for x in o0["new"]],
                               "t3_reflection": o0["refl"]})
    finally:
        env.close()


# ----------------------------------------------------------------------------- H: turn histories on ONE state, real planner facade
# One letter = what the planner says in that turn.  The request reaches the gate the way the engine produces it: the
# real LLM planner facade `run_policy` (real FixtureLLMAdapter over a real fixture file, real output validation) runs
# before `run_turn` on the same state object, in every turn.  (completion text | None = no fixture entry | "<nofile>",
# does this turn's plan request reflection, Plan.reflection scripted on, dry-run ctx)
_OKPLAN = '"plan":["note it"],"rationale":"because"'
PLANNER_ANSWERS: Dict[str, Tuple[Optional[str], bool, bool, bool]] = {
    "T": ('{%s,"reflection":true}' % _OKPLAN, True, False, False),
    "Ts": ('{%s,"reflection":"yes"}' % _OKPLAN, True, False, False),       # documented: boolean-like strings are coerced
    "F": ('{%s,"reflection":false}' % _OKPLAN, False, False, False),
    "N": ('{%s}' % _OKPLAN, False, False, False),                           # valid output without the optional key
    "badjson": ("Sure! I would reflect: true", False, False, False),         # rejected output -> fallback plan
    "unk": ('{%s,"reflection":true,"confidence":1}' % _OKPLAN, False, False, False),  # unknown key -> rejected -> fallback plan
    "nofx": (None, False, False, False),                                     # no fixture for this prompt -> adapter error -> fallback plan
    "nofile": ("<nofile>", False, False, False),                             # fixture file gone -> adapter cannot be built -> fallback plan
    "Pl": ('{%s,"reflection":false}' % _OKPLAN, True, True, False),         # request carried by Plan.reflection instead
    "Td": ('{%s,"reflection":true}' % _OKPLAN, True, False, True),          # requested, but the turn is a dry run
}
HIST_LETTERS_QUICK = ["T", "F", "N", "badjson", "nofx", "nofile"]
HIST_LETTERS_ALL = list(PLANNER_ANSWERS)

# ---- the VALUE of the optional `reflection` key, over every spelling class the planner-output contract names
# (policy/sanitize.py: "Optional top-level `reflection` flag is allowed; coerced to bool if given"; rejection text
# "reflection must be boolean (or 'true'/'false','1'/'0')"; schema: type boolean, default false): JSON booleans, the
# ints 0/1, boolean-like strings in any case and padding - each polarity - plus the two values that carry no request at
# all (null, empty string), and the second accepted FRAMING of the whole answer (one fenced ```json block).
# Letter "R=<json value>" = raw JSON answer, "R~<json value>" = the same answer inside a fenced block.
# A spelling of "no" never requests reflection, whether an implementation coerces it to false or rejects the output
# (rejected output = documented fallback plan, which requests nothing); a spelling of "yes" MAY open the gate (counted).
REFL_VALUES_NO: List[Any] = [0, "false", "0", "no", "f", "n", "False", "FALSE", " false ", "No", "", None]
REFL_VALUES_YES: List[Any] = [1, "true", "1", "yes", "t", "y", "True", " TRUE ", "Yes"]
REFL_VALUES_FENCED_NO: List[Any] = [False, "false", "0"]
REFL_VALUES_FENCED_YES: List[Any] = [True, "true"]


def _value_letter(v: Any, fenced: bool = False) -> str:
    return ("R~" if fenced else "R=") + json.dumps(v)


def _value_tag(letter: str) -> str:
    # two classes only (the concrete value is in the witness text): the value is spelled other than a bare JSON boolean,
    # or the whole answer is framed as a fenced block
    return "fenced-answer" if letter[1] == "~" else "spelled-value"


for _vals, _req, _fenced in ((REFL_VALUES_NO, False, False), (REFL_VALUES_YES, True, False),
                             (REFL_VALUES_FENCED_NO, False, True), (REFL_VALUES_FENCED_YES, True, True)):
    for _v in _vals:
        _body = '{%s,"reflection":%s}' % (_OKPLAN, json.dumps(_v))
        PLANNER_ANSWERS[_value_letter(_v, _fenced)] = (("```json\n%s\n```" % _body) if _fenced else _body, _req, False, False)
VALUE_LETTERS_NO = [_value_letter(v) for v in REFL_VALUES_NO] + [_value_letter(v, True) for v in REFL_VALUES_FENCED_NO]
VALUE_LETTERS_YES = [_value_letter(v) for v in REFL_VALUES_YES] + [_value_letter(v, True) for v in REFL_VALUES_FENCED_YES]
VALUE_LETTERS = VALUE_LETTERS_NO + VALUE_LETTERS_YES


def _letter_class(letter: str) -> str:
    if letter[:2] in ("R=", "R~"):
        return ("requested[%s]" if PLANNER_ANSWERS[letter][1] else "planner-declined[%s]") % _value_tag(letter)
    if letter in ("F", "N"):
        return "planner-declined"
    if letter in ("badjson", "unk", "nofx", "nofile"):
        return "planner-fallback"
    if letter == "Td":
        return "dry-run"
    return "requested"


def _execute_history(case: dict, prof: str, env: Env) -> dict:
    from clematis.adapters import llm as llm_mod
    if not hasattr(llm_mod, "_prompt_hash"):
        raise HarnessError("seam missing: clematis.adapters.llm._prompt_hash")
    c = norm(case)
    W.reset_globals()
    ex = W.Exec(env.scratch, "h")
    ex.activate()
    P = Patches()
    clock = FakeClock(prof)
    rec = {"calls": 0}
    plan_on = {"v": False}
    turns: List[dict] = []
    try:
        fx = os.path.join(ex.root, "planner-fixtures.jsonl")
        with open(fx, "w", encoding="utf-8"):
            pass
        over = {"t3": {"backend": "llm", "allow_reflection": bool(c["allow"]),
                       "llm": {"provider": "fixture", "fixtures": {"enabled": True, "path": fx}},
                       "reflection": {"backend": "rulebased", "summary_tokens": c["tokens"], "topk_snippets": c["topk"],
                                      "embed": c["embed"]}},
                "t4": {"enabled": bool(c["t4"])},
                "scheduler": {"budgets": {"ops_reflection": c["cap"]}}}
        cfg = W.make_cfg(over, snap_dir=ex.snap_dir)
        raw = W.make_world(c["world"])
        state = W.AttrDict(raw) if c["shape"] == "attr" else raw
        t2idx = state["mem_index"]
        midx = InMemoryIndex()
        state["memory_index"] = midx

        P.set(orch_core, "time", clock)
        _u = UTTERS[c["utter"]]
        if _u is None:
            raise HarnessError("history cases need a scripted utterance (the llm dialogue backend is not the subject)")
        P.set(orch_pkg, "t3_dialogue", lambda dialog_bundle, plan: _u)

        def delib(_ctx, _state, bundle):
            p = REAL_DELIBERATE(bundle)
            return dataclasses.replace(p, reflection=True) if plan_on["v"] else p
        P.set(orch_pkg, "t3_deliberate", delib)

        def reflect_wrapper(bundle, cfg_root, embedder=None):
            rec["calls"] += 1
            return REAL_REFLECT(bundle, cfg_root, embedder=embedder)
        P.set(refl_mod, "reflect", reflect_wrapper)

        def refl_lines() -> List[Any]:
            p = os.path.join(ex.log_dir, REFL_LOG)
            if not os.path.exists(p):
                return []
            with open(p, "r", encoding="utf-8", errors="replace") as f:
                return [ln for ln in f.read().splitlines() if ln.strip()]

        for i, letter in enumerate(c["hist"], start=1):
            completion, _req, plan_flag, dry = PLANNER_ANSWERS[letter]
            ctx = W.make_ctx(cfg, c["agent"], i)
            if dry:
                ctx._dry_run_until_t4 = True
            if completion == "<nofile>":
                if os.path.exists(fx):
                    os.unlink(fx)
            else:
                with open(fx, "w", encoding="utf-8") as f:
                    f.write(json.dumps({"prompt_hash": "0" * 64, "completion": "unrelated entry"}) + "\n")
                    if completion is not None:
                        f.write(json.dumps({"prompt_hash": llm_mod._prompt_hash(t3_pkg.make_planner_prompt(ctx)),
                                            "completion": completion}) + "\n")
            plan_on["v"] = bool(plan_flag)
            b_m, b_t2, calls0, lines0 = _idx_eps(midx), _idx_eps(t2idx), rec["calls"], len(refl_lines())
            t: Dict[str, Any] = {"letter": letter, "planner": None, "planner_raised": None, "ok": True, "err": None}
            try:
                with contextlib.redirect_stderr(io.StringIO()):
                    pol = t3_pkg.run_policy(t3_pkg.select_policy(cfg, ctx), {}, cfg, ctx, state=state)
                t["planner"] = [list(pol.get("plan") or []), str(pol.get("rationale", ""))[:40]] if isinstance(pol, dict) else repr(pol)[:60]
            except HarnessError:
                raise
            except Exception as e:   # the facade itself is not the subject of C19: the history ends here
                t["planner_raised"] = "%s: %s" % (type(e).__name__, e)
                turns.append(t)
                break
            try:
                with contextlib.redirect_stderr(io.StringIO()):
                    res = orch_core.run_turn(ctx, state, c["text"])
                if not isinstance(getattr(res, "line", None), str):
                    t["ok"], t["err"] = False, "run_turn returned %r" % (res,)
            except HarnessError:
                raise
            except Exception as e:
                t["ok"], t["err"] = False, "%s: %s" % (type(e).__name__, e)
            a_m, a_t2 = _idx_eps(midx), _idx_eps(t2idx)
            t["prefix_ok"] = a_m[:len(b_m)] == b_m and a_t2[:len(b_t2)] == b_t2
            t["new"] = a_m[len(b_m):] + a_t2[len(b_t2):]
            t["calls"] = rec["calls"] - calls0
            t["refl"] = refl_lines()[lines0:]
            turns.append(t)
            if not t["ok"]:
                break
        return {"ok": all(t["ok"] for t in turns), "turns": turns,
                "new": [x for t in turns for x in t.get("new", [])]}
    finally:
        P.close()
        ex.close()


def check_history_case(case: dict, env: Env, st: Optional[Stats] = None):
    """Oracle per turn of the history: the gate of turn i depends on turn i's plan only."""
    c = norm(case)
    out: List[Tuple[str, str]] = []
    obs: Dict[str, dict] = {}
    cap = c["cap"] if c["cap"] is not None else DEFAULT_CAP
    for prof in PROFS:
        o = execute(c, prof, env)
        obs[prof] = o
        tag = "[%s] " % prof
        for i, t in enumerate(o["turns"], start=1):
            if t["planner_raised"]:
                continue
            if st is not None:
                st.add("transitions")
            letter = t["letter"]
            _completion, req, _pf, dry = PLANNER_ANSWERS[letter]
            open_ = bool(c["allow"]) and req and not dry
            where = "turn %d of planner history %s (state shape %s)" % (i, "/".join(c["hist"]), c["shape"])
            if not t["ok"]:
                out.append(("turn-crashed:history", tag + "run_turn did not complete in %s: %s" % (where, t["err"])))
                continue
            if not open_:
                cl = "allow=0" if not c["allow"] else _letter_class(letter)
                why = "this turn's plan does not request reflection (planner said %r)" % (t["planner"],) \
                    if cl.startswith("planner") else cl
                if t["calls"]:
                    out.append(("history:gate-closed:reflect-called:" + cl, tag + "reflect() ran in %s although %s" % (where, why)))
                if t["new"] or not t["prefix_ok"]:
                    out.append(("history:gate-closed:memory-written:" + cl, tag + "memory written in %s although %s: %s" % (
                        where, why, _short(repr(t["new"]), 200))))
                if t["refl"]:
                    out.append(("history:gate-closed:telemetry-logged:" + cl, tag + "%s line written in %s although %s: %s" % (
                        REFL_LOG, where, why, _short(repr(t["refl"]), 200))))
                continue
            if not t["prefix_ok"]:
                out.append(("memory:existing-entries-altered", tag + "entries present before %s were changed or removed" % where))
            if len(t["new"]) > cap:
                out.append(("cap:exceeded:history", tag + "%d new memory entries in %s with ops_reflection=%s" % (len(t["new"]), where, c["cap"])))
            for ej in t["new"]:
                ntok = len(str(json.loads(ej).get("text", "")).split())
                if ntok > c["tokens"]:
                    out.append(("summary:over-limit:history", tag + "stored summary has %d whitespace tokens, limit %d (%s)" % (
                        ntok, c["tokens"], where)))
    ok_all = all(obs[p]["ok"] and not any(t["planner_raised"] for t in obs[p]["turns"]) for p in PROFS)
    if ok_all and obs["P0"]["new"] != obs["P1"]["new"]:
        out.append(_classify_profile_difference(c, obs, env, st))
    if ok_all:
        for prof in PROFS:
            for i, t in enumerate(obs[prof]["turns"], start=1):
                for slot, ej in enumerate(t["new"]):
                    e = json.loads(ej)
                    k = jkey([c["agent"], i, slot, e.get("text")])
                    v = (str(e.get("id")), str(e.get("ts")))
                    old = env.fd.get(k)
                    if old is None:
                        env.fd[k] = (v[0], v[1], c, prof)
                        if st is not None:
                            st.distinct("fd_keys", k)
                            st.distinct("fd_pairs", [k, v[0], v[1]])
                    elif (old[0], old[1]) != v:
                        which = "id" if old[0] != v[0] else "ts"
                        sig = "purity:%s-not-a-function-of-agent-turn-slot-text" % which
                        what = "(agent,turn,slot,text)=%s -> %r vs %r" % (_short(k, 120), v, (old[0], old[1]))
                        if st is not None:
                            st.violation(sig, what, {"kind": "pair", "a": old[2], "pa": old[3], "b": c, "pb": prof})
                        else:
                            out.append((sig, what))
    o0 = obs["P0"]
    outcome = ["history", c["shape"], bool(c["allow"]),
               [[_letter_class(t["letter"]), bool(t.get("calls")), min(len(t.get("new", [])), 2), bool(t.get("refl")),
                 bool(t["planner_raised"]), t["ok"]] for t in o0["turns"]]]
    return out, outcome, obs


def enumerate_histories(thorough: bool) -> List[dict]:
    cases: List[dict] = []

    def add(hist, shape, allow=True):
        cases.append(dict(kind="history", leg="H", hist=list(hist), shape=shape, allow=allow, world="W0", utter="hi",
                          tokens=8, cap=2, embed=False))
    if thorough:
        for h in itertools.product(HIST_LETTERS_ALL, repeat=2):
            add(h, "attr")
            add(h, "dict")
            add(h, "attr", allow=False)
        for h in itertools.product(HIST_LETTERS_ALL, repeat=3):
            add(h, "attr")
    else:
        for h in itertools.product(HIST_LETTERS_QUICK, repeat=2):
            add(h, "attr")
            add(h, "dict")
        for h in itertools.product(("T", "F"), repeat=2):
            add(h, "attr", allow=False)
        # three turns: every position of ONE request among declines / fallbacks, and request-fallback-decline orders
        for h in itertools.permutations(("T", "N", "nofx"), 3):
            add(h, "attr")
        for h in (("T", "badjson", "badjson"), ("T", "nofile", "T"), ("Pl", "F", "nofx"), ("Td", "nofx", "F"), ("Ts", "unk", "F")):
            add(h, "attr")
    # ---- value spellings / framings of the `reflection` key: alone, and after a turn that reflected
    for v in VALUE_LETTERS:
        add((v,), "attr")
    for v in VALUE_LETTERS_NO:
        add(("T", v), "attr")
    if thorough:
        for v in VALUE_LETTERS:
            add((v,), "dict")
            add((v,), "attr", allow=False)
            for w in HIST_LETTERS_ALL:
                add((v, w), "attr")
                if (w, v) != ("T", v) or v not in VALUE_LETTERS_NO:
                    add((w, v), "attr")
        for v, w in itertools.product(VALUE_LETTERS_YES, VALUE_LETTERS_NO):
            add((v, w), "attr")
    else:
        for v in (_value_letter("false"), _value_letter("yes"), _value_letter(0)):
            add((v,), "dict")
        for v, w in ((_value_letter("yes"), _value_letter("no")), (_value_letter(1), _value_letter("0")),
                     (_value_letter("true"), _value_letter("false", True))):
            add((v, w), "attr")
    return cases


def _history_worker(chunk, st: Stats, scratch_root: str):
    env = Env(scratch_root)
    try:
        for case in chunk:
            c = norm(case)
            res, outcome, obs = check_history_case(case, env, st)
            st.add("validated")
            st.add("history_cases")
            st.distinct("states", jkey(c))
            st.distinct("outcomes", outcome)
            # stale risk (from the alphabet, not from what the engine did): a turn that does not request reflection
            # follows one that does
            opens = [bool(c["allow"]) and PLANNER_ANSWERS[l][1] and not PLANNER_ANSWERS[l][3] for l in c["hist"]]
            stale_risk = any(opens[i] and not all(opens[i + 1:]) for i in range(len(opens)))
            reflected_before = False
            for t, op in zip(obs["P0"]["turns"], opens):
                if t["planner_raised"]:
                    st.add("n_hist_planner_facade_raised")      # observed, not judged (not the subject of C19)
                    break
                st.add("n_hist_turns")
                if t.get("calls"):
                    st.add("n_hist_turns_reflected")
                if reflected_before and not op and not t.get("calls"):
                    st.add("n_hist_closed_after_a_reflecting_turn")
                reflected_before = reflected_before or bool(t.get("calls"))
                if t["letter"][:2] in ("R=", "R~"):
                    st.add("n_hist_turns_with_a_spelled_value")
                    if PLANNER_ANSWERS[t["letter"]][1] and t.get("calls") and c["allow"]:
                        st.distinct("spellings_that_opened_the_gate", t["letter"])     # observed, not demanded
            spelled = any(l[:2] in ("R=", "R~") for l in c["hist"])
            if spelled:
                st.add("n_hist_value_spelling_cases")
            if stale_risk:
                st.add("n_hist_stale_risk_cases")
            if stale_risk or (spelled and c["allow"] and c["shape"] == "attr"):
                st.add("nontrivial")
            for sig, what in res:
                st.violation(sig, what, case)
            if len(st.samples) < 1 and stale_risk:
                st.sample({"case": case, "turns": [{k: t.get(k) for k in ("letter", "planner", "calls", "refl")} |
                                                   {"new": [json.loads(_sans_vec(x)) for x in t.get("new", [])]}
                                                   for t in obs["P0"]["turns"]]})
    finally:
        env.close()


# ----------------------------------------------------------------------------- D1: reflect() direct
def _toks(s) -> int:
    return len(str(s or "").split())


def check_reflect_direct(case: dict, env: Env) -> Tuple[List[Tuple[str, str]], Any]:
    out = []
    utter = UTTERS[case["utter"]]
    snippets = [SNIP_ATOMS[i] for i in case["snips"]]
    cfg = {"t3": {"allow_reflection": True,
                  "reflection": {"backend": "rulebased" if case["backend"] == "rulebased" else "llm",
                                 "summary_tokens": case["tokens"], "topk_snippets": case["topk"], "embed": case["embed"]},
                  "llm": {"fixtures": {"enabled": True, "path": env.fx_ok}}},
           "scheduler": {"budgets": {"ops_reflection": case["cap"]}}}
    P = Patches()
    try:
        if case["backend"] != "rulebased":
            P.set(refl_mod, "FixtureLLMAdapter", _all_prompts_adapter(COMPLETIONS[int(case["backend"].split(":")[1])]))
        results = []
        for _rep in range(2):
            ctx = types.SimpleNamespace(agent_id="A", turn_id=1, now_ms=W.NOW_MS, now_iso="2025-06-01T00:00:00+00:00")
            sn = copy.deepcopy(snippets)
            b = ReflectionBundle(ctx=ctx, state_view=None, plan=types.SimpleNamespace(reflection=True), utter=utter, snippets=sn)
            try:
                r = REAL_REFLECT(b, copy.deepcopy(cfg))
                results.append(("ok", r.summary, jkey(r.memory_entries)))
                if sn != snippets:
                    out.append(("reflect:mutates-snippets", "snippet list changed by reflect(): %r" % (_short(repr(sn)),)))
                if len(r.memory_entries) > case["cap"]:
                    out.append(("cap:exceeded:reflect()", "reflect() returned %d entries with ops_reflection=%d" % (len(r.memory_entries), case["cap"])))
                if _toks(r.summary) > case["tokens"]:
                    out.append(("summary:over-limit:reflect():" + case["backend"].split(":")[0],
                                "summary has %d whitespace tokens, limit %d: %r" % (_toks(r.summary), case["tokens"], _short(r.summary, 80))))
                for e in r.memory_entries:
                    if _toks(e.get("text")) > case["tokens"]:
                        out.append(("summary:over-limit:reflect():" + case["backend"].split(":")[0],
                                    "entry text has %d whitespace tokens, limit %d" % (_toks(e.get("text")), case["tokens"])))
            except HarnessError:
                raise
            except Exception as e:
                results.append(("raises", type(e).__name__, ""))
        if results[0] != results[1]:
            out.append(("purity:reflect()-not-deterministic", "two identical reflect() calls differ: %s vs %s" % (
                _short(repr(results[0])), _short(repr(results[1])))))
        oc = ["reflect()", results[0][0], results[0][1] if results[0][0] == "raises" else
              (min(_toks(results[0][1]), 3), results[0][2] != "[]")]
        return out, oc
    finally:
        P.close()


FIXTURE_HISTORIES = [list(h) for n in (2, 3) for h in itertools.product(("present", "entry-removed", "file-deleted"), repeat=n)]


def check_fixture_history(hist: List[str], env: Env, utter_key: str = "hi") -> Tuple[List[Tuple[str, str]], Any]:
    """History of fixture-file states at ONE path, a reflecting call (real reflect(), real FixtureLLMAdapter, real file)
    after each: with the fixture for the prompt present the completion is used; once the entry is removed from the file
    or the file is deleted, reflect() must fail or return no entries - whatever earlier calls in this process loaded."""
    from clematis.adapters import llm as llm_mod
    out = []
    path = os.path.join(env.scratch, "fixtures", "history.jsonl")
    cfg = {"t3": {"allow_reflection": True,
                  "reflection": {"backend": "llm", "summary_tokens": 8, "topk_snippets": 3, "embed": False},
                  "llm": {"fixtures": {"enabled": True, "path": path}}},
           "scheduler": {"budgets": {"ops_reflection": 2}}}
    # learn the prompt hash with a recording subclass (used for this probe only, on a different path)
    seen = {}

    class Rec(REAL_FIXTURE_ADAPTER):  # type: ignore[misc,valid-type]
        def generate(self, prompt, max_tokens, temperature):
            seen["h"] = llm_mod._prompt_hash(prompt)
            self._map.setdefault(seen["h"], "probe")
            return REAL_FIXTURE_ADAPTER.generate(self, prompt, max_tokens, temperature)

    def mk_bundle():
        ctx = types.SimpleNamespace(agent_id="A", turn_id=1, now_ms=W.NOW_MS, now_iso="2025-06-01T00:00:00+00:00")
        return ReflectionBundle(ctx=ctx, state_view=None, plan=types.SimpleNamespace(reflection=True), utter=UTTERS[utter_key], snippets=["One."])

    P = Patches()
    try:
        P.set(refl_mod, "FixtureLLMAdapter", Rec)
        probe_cfg = copy.deepcopy(cfg)
        probe_cfg["t3"]["llm"]["fixtures"]["path"] = env.fx_ok
        REAL_REFLECT(mk_bundle(), probe_cfg)
    finally:
        P.close()
    if "h" not in seen:
        raise HarnessError("fixture history: could not learn the prompt hash")
    obs = []
    for i, stt in enumerate(hist):
        if stt == "present":
            with open(path, "w", encoding="utf-8") as f:
                f.write(json.dumps({"prompt_hash": seen["h"], "completion": "alpha beta gamma"}) + "\n")
        elif stt == "entry-removed":
            with open(path, "w", encoding="utf-8") as f:
                f.write(json.dumps({"prompt_hash": "0" * 64, "completion": "unrelated entry"}) + "\n")
        else:
            if os.path.exists(path):
                os.unlink(path)
        try:
            r = REAL_REFLECT(mk_bundle(), copy.deepcopy(cfg))
            got = ("ok", len(r.memory_entries), r.summary)
        except HarnessError:
            raise
        except Exception as e:  # the orchestrator turns this into "no entries"
            got = ("raises", 0, type(e).__name__)
        obs.append(got)
        if stt == "present" and not (got[0] == "ok" and got[1] >= 1):
            out.append(("fixture-history:present-not-used", "step %d of %r: fixture present but reflect() gave %r" % (i + 1, hist, got)))
        if stt != "present" and got[1] != 0:
            out.append(("fixture-history:memory-written:%s" % stt,
                        "step %d of %r: fixture %s, yet reflect() returned %d entries (summary %r)" % (i + 1, hist, stt, got[1], got[2])))
    if os.path.exists(path):
        os.unlink(path)
    return out, tuple(o[0] for o in obs)


def enumerate_reflect_direct(thorough: bool) -> List[dict]:
    utters = [k for k in UTTERS if k != "real"]
    maxlen = 3 if thorough else 2
    lists: List[tuple] = []
    for n in range(maxlen + 1):
        lists.extend(itertools.product(range(len(SNIP_ATOMS)), repeat=n))
    cases = []
    for u in utters:
        for sn in lists:
            for tk in ((0, 1, 2, 3, 128) if thorough else (0, 1, 2, 128)):
                for cap in (0, 1, 5):
                    for topk in (0, 1, 3):
                        if (topk == 0 and len(sn) > 1) or (topk == 1 and len(sn) > 2):
                            continue   # snippets beyond topk are unused: one representative list length is enough
                        for be in ["rulebased"] + ["llm:%d" % i for i in (range(len(COMPLETIONS)) if thorough else (0, 1, 2, 4))]:
                            for emb in ((True, False) if be == "rulebased" else (True,)):
                                if emb is False and (cap != 1 or topk != 3):
                                    continue
                                cases.append(dict(kind="reflect", utter=u, snips=list(sn), tokens=tk, cap=cap, topk=topk,
                                                  backend=be, embed=emb))
    return cases


def _reflect_worker(chunk, st: Stats, scratch_root: str):
    env = Env(scratch_root)
    try:
        for case in chunk:
            res, oc = check_reflect_direct(case, env)
            st.add("transitions", 2)
            st.add("validated")
            st.add("reflect_direct_cases")
            st.distinct("states", jkey(case))
            st.distinct("outcomes", oc)
            if case["tokens"] < 128 or case["cap"] == 0:
                st.add("nontrivial")
            for sig, what in res:
                st.violation(sig, what, case)
    finally:
        env.close()


# ----------------------------------------------------------------------------- D2: writer direct
def check_writer_direct(case: dict, fd: Optional[dict] = None) -> Tuple[List[Tuple[str, str]], Any]:
    out = []
    k, cap, fail, excn, ik = case["k"], case["cap"], set(case["fail"]), case["exc"], case["index"]
    texts = STUB_TEXTS[:k]
    entries = [{"owner": "A", "ts": "x", "text": t, "tags": ["reflection"], "kind": "summary"} for t in texts]
    stored: List[dict] = []
    calls = [0]

    class Idx:
        kind = "probe"

        def add(self, ep):
            calls[0] += 1
            if calls[0] in fail:
                raise EXC[excn]("injected add #%d" % calls[0])
            stored.append(copy.deepcopy(ep))

    if ik == "ok":
        state: Any = {"memory_index": Idx()}
    elif ik == "attr":
        state = types.SimpleNamespace(memory_index=Idx())
    elif ik == "none":
        state = {"memory_index": None}
    elif ik == "absent":
        state = {}
    else:
        state = {"memory_index": types.SimpleNamespace(kind="noadd")}
    turn = case.get("turn", 1)
    ctx = types.SimpleNamespace(agent_id=case.get("agent", "A"), turn_id=turn, now_ms=W.NOW_MS + 1000 * turn,
                                now_iso="2025-06-01T00:00:0%d+00:00" % turn)
    cfg = {"scheduler": {"budgets": {"ops_reflection": cap}}, "t3": {"reflection": {"embed": False}}}
    result = types.SimpleNamespace(memory_entries=copy.deepcopy(entries), summary=(texts[0] if texts else ""), metrics={})
    raised = None
    try:
        writer_mod.write_reflection_entries(ctx, state, cfg, result)
    except Exception as e:
        raised = type(e).__name__
    if len(stored) > cap:
        out.append(("cap:exceeded:writer", "writer stored %d entries with ops_reflection=%d (offered %d, failing add calls %s)" % (
            len(stored), cap, k, sorted(fail))))
    for e in stored:
        if e.get("text") not in texts:
            out.append(("write-fault:not-subset:writer", "stored text %r was not offered" % (e.get("text"),)))
        elif fd is not None:
            key = jkey([ctx.agent_id, turn, texts.index(e.get("text")), e.get("text")])
            v = (str(e.get("id")), str(e.get("ts")))
            old = fd.setdefault(key, v)
            if old != v:
                out.append(("purity:writer-id-ts-not-a-function", "key %s -> %r and %r" % (key, old, v)))
    if ik in ("none", "absent", "noadd") and stored:
        out.append(("write-fault:not-subset:writer", "entries stored without a usable index?"))
    return out, ["writer", ik, min(len(stored), 3), raised, bool(fail), cap == 0]


def enumerate_writer_direct(thorough: bool) -> List[dict]:
    cases = []
    kmax = 6 if thorough else 4
    for k in range(kmax + 1):
        subsets = [()]
        for n in range(1, k + 1):
            subsets.extend(itertools.combinations(range(1, k + 1), n))
        for cap in (0, 1, 2, 5):
            for fail in subsets:
                for excn in (EXC_ALL if thorough else EXC_QUICK) if fail else ("ValueError",):
                    for ik in ("ok", "attr"):
                        for ag, tn in (("A", 1), ("B", 2)):
                            cases.append(dict(kind="writer", k=k, cap=cap, fail=list(fail), exc=excn, index=ik, agent=ag, turn=tn))
            for ik in ("none", "absent", "noadd"):
                cases.append(dict(kind="writer", k=k, cap=cap, fail=[], exc="ValueError", index=ik))
    return cases


def _writer_worker(chunk, st: Stats):
    fd: Dict[str, Any] = {}
    for case in chunk:
        res, oc = check_writer_direct(case, fd)
        st.add("transitions")
        st.add("validated")
        st.add("writer_direct_cases")
        st.distinct("states", jkey(case))
        st.distinct("outcomes", oc)
        if case["k"] > case["cap"] or case["fail"]:
            st.add("nontrivial")
        for sig, what in res:
            st.violation(sig, what, case)


# ----------------------------------------------------------------------------- hash-seed probe (E5 answer: PYTHONHASHSEED)
HASH_SEEDS = ["1", "7"]


def _probe_cases() -> List[dict]:
    legs = enumerate_turn_cases(False, 0)
    cases = [cs for g in legs["P"] for cs in g]
    cases.append(dict(leg="P", backend="llm:present:3", utter="uni", snips="mixed", tokens=128, cap=1))
    cases.append(dict(leg="P", world="W1", utter="real", tokens=128, cap=5, memidx="alias"))
    # later turns of one state (turn ids 2 and 3), request produced by the real planner facade
    cases.append(dict(kind="history", leg="H", hist=["T", "T", "Ts"], shape="attr", world="W0", utter="hi", tokens=8, cap=2, embed=False))
    return cases


def _fd_table(scratch_root: str) -> Dict[str, list]:
    """(agent,turn,slot,text) -> [id, ts, entry] of the probe cases, under THIS interpreter's string-hash seed and the
    time zone it was started in (profile PE does not touch the zone)."""
    env = Env(scratch_root)
    try:
        table: Dict[str, list] = {}
        for cs in _probe_cases():
            c = norm(cs)
            o = execute(c, "PE", env)
            per_turn = [(i, t.get("new", [])) for i, t in enumerate(o["turns"], start=1)] if c["kind"] == "history" \
                else [(c["turn"], o["new"])]
            for turn, new in per_turn:
                for slot, ej in enumerate(new):
                    e = json.loads(ej)
                    table.setdefault(jkey([c["agent"], turn, slot, e.get("text")]), [e.get("id"), e.get("ts"), ej])
        return table
    finally:
        env.close()


def check_hash_seeds(scratch_root: str, seeds: List[str], zones: Optional[List[str]] = None) -> Tuple[List[Tuple[str, str]], int]:
    """Re-computes the (agent,turn,slot,text) -> (id, ts, entry) table in fresh interpreters that differ from this one
    in ONE environment answer - the string-hash seed, or the time zone the interpreter is started in - and compares
    it with this process's table."""
    import subprocess
    mine = _fd_table(scratch_root)
    if not mine:
        raise HarnessError("hash-seed probe wrote no entries")
    procs = []
    for dim, val in [("PYTHONHASHSEED", sd) for sd in seeds] + [("TZ", z) for z in (zones or [])]:
        envv = dict(os.environ)
        envv[dim] = val
        envv["C19_PROBE_SCRATCH"] = scratch_root
        procs.append((dim, val, subprocess.Popen([sys.executable, "-m", "props.c19_reflection"], env=envv, cwd=os.path.dirname(os.path.dirname(os.path.abspath(__file__))),
                                                 stdout=subprocess.PIPE, stderr=subprocess.PIPE)))
    out: List[Tuple[str, str]] = []
    for dim, val, pr in procs:
        so, se = pr.communicate()
        if pr.returncode != 0:
            raise HarnessError("environment probe (%s=%s) failed: %s" % (dim, val, se.decode("utf-8", "replace")[-400:]))
        theirs = json.loads(so.decode("utf-8").strip().splitlines()[-1])
        sig = "purity:hash-seed" if dim == "PYTHONHASHSEED" else "purity:time-zone"
        if set(theirs) != set(mine):
            out.append((sig, "set of written (agent,turn,slot,text) keys differs under %s=%s" % (dim, val)))
            continue
        for k in sorted(mine):
            if mine[k] != theirs[k]:
                which = "id" if mine[k][0] != theirs[k][0] else ("ts" if mine[k][1] != theirs[k][1] else "entry")
                out.append((sig, "%s of %s differs in an interpreter started with %s=%s: %r vs %r here (%s=%s)" % (
                    which, _short(k, 100), dim, val, theirs[k][:2], mine[k][:2], dim, os.environ.get(dim, "<unset>"))))
                break
    return out, len(mine)


# ----------------------------------------------------------------------------- entry points
def run(run: Run) -> None:
    legs = enumerate_turn_cases(run.thorough, run.seed)
    items: List[dict] = []
    for name in ("G", "I", "F"):
        run.notes["cases_leg_" + name] = len(legs[name])
        items.extend(_group(legs[name]))
    run.notes["cases_leg_P"] = sum(len(g) for g in legs["P"])
    items.extend({"cases": g} for g in legs["P"])
    # big groups first so that the pool drains evenly
    items.sort(key=lambda it: -len(it["cases"]))
    run.pmap(_turn_worker, items, extra=(run.scratch,), chunks=max(1, min(len(items), 16 * 12)))
    if not run.n.get("n_cases_with_entries_written") or not run.n.get("n_fault_cases_fired"):
        raise HarnessError("vacuous: no open-gate execution wrote a memory entry / no injected fault fired "
                           "(reflect seam or memory_index key moved?)")
    # ---- H: histories of planner answers on one state
    hcases = enumerate_histories(run.thorough)
    run.notes["cases_leg_H"] = len(hcases)
    run.notes["history_planner_alphabet"] = HIST_LETTERS_ALL if run.thorough else HIST_LETTERS_QUICK + ["(+ Ts unk Pl Td in 5 three-turn histories)"]
    run.notes["history_reflection_value_spellings"] = {"decline": VALUE_LETTERS_NO, "request": VALUE_LETTERS_YES}
    hcases.sort(key=lambda cs: -len(cs["hist"]))
    run.pmap(_history_worker, hcases, extra=(run.scratch,))
    if not run.n.get("n_hist_stale_risk_cases"):
        raise HarnessError("vacuous: leg H enumerated no history in which a non-requesting turn follows a requesting one")
    if not run.n.get("n_hist_turns_reflected") and not run.viol:
        # nothing reflected on a planner request and nothing else is wrong: the seam moved (an engine that reflects
        # too often or crashes is reported through its violations, never through this guard)
        raise HarnessError("vacuous: no history turn reflected on a planner request (planner facade, fixture format or "
                           "state stash moved?)")
    zones = PROBE_ZONES if run.thorough else PROBE_ZONES[:1]
    hs, nkeys = check_hash_seeds(run.scratch, HASH_SEEDS, zones)
    nprobe = sum(len(cs["hist"]) if cs.get("kind") == "history" else 1 for cs in _probe_cases())
    run.add("transitions", (len(HASH_SEEDS) + len(zones) + 1) * nprobe)
    run.add("validated", len(HASH_SEEDS) + len(zones))
    run.notes["hash_seeds_compared"] = [os.environ.get("PYTHONHASHSEED", "?")] + HASH_SEEDS
    run.notes["time_zones_compared"] = {"in_process_per_profile": {p: PROFILES[p][3] for p in PROFS},
                                        "fresh_interpreters": [os.environ.get("TZ", "<host default>")] + zones}
    run.notes["hash_seed_probe_keys"] = nkeys
    run.distinct("outcomes", ["hash-seed", bool(hs)])
    for sig, what in hs:
        run.violation(sig, what, {"kind": "hashseed", "seeds": HASH_SEEDS, "zones": zones})
    d1 = enumerate_reflect_direct(run.thorough)
    run.notes["cases_reflect_direct"] = len(d1)
    run.pmap(_reflect_worker, d1, extra=(run.scratch,))
    # fixture-file histories at one path (one process: whatever an earlier call loaded must not outlive the file)
    envh = Env(run.scratch)
    try:
        for hist in FIXTURE_HISTORIES:
            res, oc = check_fixture_history(hist, envh)
            run.add("transitions", len(hist))
            run.add("validated", len(hist))
            run.add("fixture_history_cases")
            run.distinct("states", jkey({"fixture_history": hist}))
            run.distinct("outcomes", ["fixture-history", list(oc)])
            for sig, what in res:
                run.violation(sig, what, {"kind": "fixture-history", "history": hist})
    finally:
        envh.close()
    run.notes["fixture_histories"] = len(FIXTURE_HISTORIES)
    d2 = enumerate_writer_direct(run.thorough)
    run.notes["cases_writer_direct"] = len(d2)
    # one process: the id/ts function table must see every case
    _writer_worker(d2, run)
    run.notes["fd_keys_distinct"] = len(run.sets.get("fd_keys", ()))
    run.notes["fd_key_value_pairs_distinct"] = len(run.sets.get("fd_pairs", ()))
    run.notes["clock_profiles"] = {k: {"perf_start": PROFILES[k][0], "perf_step_per_call": PROFILES[k][1], "wall": PROFILES[k][2],
                                       "process_time_zone": PROFILES[k][3]} for k in PROFS}
    run.notes["exception_alphabet"] = EXC_ALL if run.thorough else EXC_QUICK
    run.rule = ("every case of legs G (gate matrix), I (inputs), F (fault plans), P (purity groups) is one real run_turn per "
                "environment profile (clock script + process time zone: P0 = UTC, P1 = UTC+9) plus the reflection-off baseline "
                "and, for fault cases, the fault-free reference; leg H runs every history (length 2, thorough: <= 3) of "
                "planner answers {requests reflection, declines, omits the key, rejected output, no fixture, fixture file "
                "gone; thorough also boolean-like string, unknown key, Plan.reflection, dry run} on ONE state: in each turn "
                "the real LLM planner facade run_policy (real fixture adapter and validator) and then run_turn, the gate of "
                "turn i judged against turn i's plan only; leg H also runs every spelling of the planner's `reflection` value "
                "(ints 0/1, boolean-like strings of both polarities in several cases / paddings, null, empty string; raw and "
                "fenced-json framing) alone and after a reflecting turn (thorough: paired with every planner answer in both "
                "orders, and every request-spelling followed by every decline-spelling); leg F scripts elapsed times on "
                "both sides of the wall budget including fractions of a millisecond (budget +1/8, +1/4, +3/4 ms, budget "
                "-3/4 ms; thorough more, incl. half-millisecond ties and the default budget) and the lower end of the budget's "
                "documented domain, 0 ms, with passes of 1/4 and 6 ms (thorough also 1 and 1000 ms); "
                "the id/ts table is recomputed in fresh interpreters with other "
                "hash seeds and other time zones; D1/D2 call reflect()/write_reflection_entries directly. non-trivial = "
                "open gate and reflect() actually ran, or closed gate with at least one gate input set; H: a turn that does "
                "not request reflection follows one that reflected, or a turn whose reflection value is spelled other than "
                "a bare JSON boolean; D1: limit < 128 or cap 0; D2: more entries than cap or a failing add")
    run.assume("leg H: the planner facade runs in every turn before run_turn on the same state object (what a driver of the "
               "LLM planner does); histories where a driver stops calling the planner are not in the space - the statement "
               "does not say who clears a request then. 'requested by the plan' for a turn whose planner output is rejected "
               "or unavailable = the documented fallback plan, which requests nothing. That reflection DOES run on a "
               "request is counted (anti-vacuity), not demanded ('only when')")
    run.assume("time zones are POSIX TZ strings set through TZ + time.tzset() (in-process) or the child's environment; "
               "ctx carries the integer logical clock now_ms and no pre-computed now_iso, so the engine derives the stamp itself")
    run.assume("the logical clock is a function of the turn (ctx.now_ms = base + 1000*turn, ctx.now fixed), so 'ts is a function of "
               "(agent, turn, slot, text)' is checked with the logical clock folded into the turn")
    run.assume("the reflection memory index is state['memory_index'] (what write_reflection_entries selects); T2 reads "
               "state['mem_index'] — both are observed, 'alias' worlds bind both keys to one index")
    run.assume("'llm fixture present' = the real FixtureLLMAdapter over a real file whose store answers every enumerated prompt "
               "with the scripted completion")
    run.assume("write-leg faults: the oracle is 'new entries are a sub-multiset of the fault-free run's and <= cap'; whether later "
               "entries may still be added after one failed index.add is not stated by the property (the repo's own writer test pins "
               "continue-after-failure), so it is counted (n_cases_add_continued_after_a_failed_add) but not judged")
    run.assume("exception alphabet = subclasses of Exception; BaseException (KeyboardInterrupt/SystemExit) not injected")
    run.assume("elapsed vs budget: the pass is scripted to take a given time on the engine's own clock (perf_counter of the "
               "time module the orchestrator uses); 'timeout' = that time exceeds scheduler.budgets.time_ms_reflection (int ms) by "
               "at least 1/8 ms, 'within budget' = at most budget - 1/8 ms even if the engine reads the advancing clock twice "
               "more; elapsed == budget exactly and excesses below 1/8 ms are not in the alphabet (the statement names neither "
               "the side of the boundary nor a clock resolution)")
    run.assume("wall budget 0: docs/m10/reflection.md gives the domain of scheduler.budgets.time_ms_reflection as 'int ms >= 0' "
               "with 'on timeout -> reason=reflection_timeout and no writes'; configs/validate.py rejects values below 1, so "
               "the 0 ms budget is carried by a hand-built runtime config (validated with 1, then set to 0 - what the repo's "
               "tests and scripts do when they pass a raw cfg to run_turn, which reads the budget itself). Read as the "
               "tightest limit: any pass taking >= 1/4 ms is a timeout and must write nothing; 'unlimited' is spelled null. "
               "Only the int 0 is enumerated, not '0', 0.5 or False (the docs name no coercions)")
    run.assume("planner `reflection` value: a spelling of 'no' (false, 0, 'false', '0', 'no', 'f', 'n' in any case / padding), "
               "null and the empty string never request reflection - whether the validator coerces them or rejects the output "
               "(rejected output = fallback plan, which requests nothing); a spelling of 'yes' may open the gate (counted in "
               "spellings_that_opened_the_gate, not demanded); values outside the documented table (2, 'on', 1.0, lists) are "
               "not in the alphabet because the contract does not say whether they request anything")


def replay(case):
    base = tempfile.mkdtemp(prefix="c19r-", dir="/dev/shm" if os.path.isdir("/dev/shm") else None)
    os.environ.setdefault("CLEMATIS_LOG_DIR", os.path.join(base, "logs-default"))
    env = Env(base)
    try:
        kind = case.get("kind", "turn")
        if kind == "hashseed":
            return sorted(set(check_hash_seeds(base, list(case.get("seeds") or HASH_SEEDS), list(case.get("zones") or []))[0]))
        if kind == "history":
            return sorted(set(check_history_case(case, env, None)[0]))
        if kind == "reflect":
            return sorted(set(check_reflect_direct(case, env)[0]))
        if kind == "fixture-history":
            return sorted(set(check_fixture_history(case["history"], env)[0]))
        if kind == "writer":
            return sorted(set(check_writer_direct(case, {})[0]))
        if kind == "pair":
            out = []
            for cc in (case["a"], case["b"]):
                if cc.get("kind") == "history":
                    res, _oc, _obs = check_history_case(cc, env, None)
                else:
                    res, _oc, _obs = check_turn_case(cc, env, {}, None)
                out.extend(res)
            return sorted(set(out))
        res, _oc, _obs = check_turn_case(case, env, {}, None)
        return sorted(set(res))
    finally:
        env.close()
        shutil.rmtree(base, ignore_errors=True)


if __name__ == "__main__":   # hash-seed probe child: prints the id/ts table of the probe cases as one JSON line
    _root = os.environ.get("C19_PROBE_SCRATCH") or tempfile.mkdtemp(prefix="c19p-", dir="/dev/shm" if os.path.isdir("/dev/shm") else None)
    os.environ.setdefault("CLEMATIS_LOG_DIR", os.path.join(_root, "logs-default"))
    print(json.dumps(_fd_table(_root)))
