"""C06 — snapshots round-trip the state they were written from.

Engine E2 (exhaustive small-scope enumeration on the real write_snapshot / load_latest_snapshot).

Legs
 (rt)   every state of a bounded family -> chain  write -> load(fresh) -> write -> load(fresh) -> write
        oracle: (1) the written GEL section is the documented sanitised form of the input graph (reference
                    derived here independently: one edge per unordered pair, weight clamped to the configured
                    bounds and rounded to six decimals, rel/attrs/updated_at/nodes/well-shaped meta preserved);
                (2) after load: version == written, store weights equal (NaN-aware), graph == written GEL section;
                (3) the second (and third) write is byte-identical to the first;
                (4) body and sidecar carry the frozen schema marker.
 (disc) every subset of {sidecar, temp of body, temp of sidecar, real _make_tmp product, *.json.zst (+ its sidecar),
        foreign json} next to {legacy body, PR34 full body, no body}, older/newer mtimes, both listdir orders.
        oracle: discovery never returns a sidecar or a temp file; with a body present (and nothing that the
        documented tier order ranks above it) it returns the body and the load restores its version.
 (hist) every history of L writes (agent x state) into ONE shared snapshot directory, a fresh-state load after every
        write (both listdir orders); time passes between writes (harness-owned clock: files of earlier steps are
        moved to increasing logical mtimes, the write under test is stamped by the real clock).
        oracle: the snapshot written LAST is the one that is loaded: path, version, store weights and graph
        (== its written GEL section); the body at the returned path holds the state it was written from; marker.
 (live) the rt chain on states as the ENGINE leaves them: every state-field layout {graph only; graph + a `gel` mirror
        that is the same object / a shallow copy / a deep copy / a separately built empty graph / a stale other graph}
        x every short history of real GEL operations (observe_retrieval, tick, apply_merge) run on that state before
        the write.  oracle: the same four clauses, the input graph being the live `state.graph` at write time (the
        graph the GEL layer maintains: docs/m11 "snapshots include state.graph.*", gel.py "only state.graph is mutated").
 (env)  the rt chain and the PR34 writers under every answer of the process environment the writers consult
        (SOURCE_DATE_EPOCH in {unset, integers incl. 0 / negative / blank-padded, empty, date string, fractional,
        integer beyond the platform time range}).  oracle: unchanged (marker on every body + sidecar, round trip,
        fixpoint); a write that REFUSES (raises) under a value that is not a usable integer is not judged.
 (ver)  [inside rt, family F7, and inside disc] the VALUE of the version string is a dimension of its own: the empty
        string, a blank, strings that spell a number / a JSON or Python literal ("0", "00", "None", "null", "false"),
        a unicode one - written through write_snapshot (rt chain), through the PR34 writer with the version in the
        payload, and through the PR34 writer with the version only in the header (etag_to).  oracle: unchanged.
 (num)  numbered snapshots `snap_<N>.json` (first tier of the documented discovery order, docs/m8/cli.md: "prefers
        snap_*.json with the highest numeric suffix; else latest state_*.json by mtime; else latest *.json"): every
        small set of suffixes over an alphabet of widths / paddings / magnitudes (0, one digit, two digits,
        zero-padded, a padded counter rolling over its width), every body the real product of write_snapshot for a
        distinct generation, x mtimes {agreeing with the numbers, reversed, all equal} x every subset of neighbours
        {a newer state_*.json body, a temp file and a bare sidecar carrying a HIGHER number}, both listdir orders.
        oracle: picker, loader and the metadata probe return a body with the highest numeric suffix - never the
        temp / sidecar / lower tier; the fresh state gets that generation's version, store and graph; writing the
        loaded state again reproduces that body byte for byte.
"""
from __future__ import annotations

import copy
import itertools
import json
import math
import os
import shutil
import types
from pathlib import Path

from mc.runner import Run, Stats, HarnessError

from clematis.engine import snapshot as snap
from clematis.engine import gel as gel_mod
from clematis.io import atomic as atomic_mod

os.environ["SOURCE_DATE_EPOCH"] = "1735689600"   # sidecar created_at must not read the wall clock

NAN = float("nan")
INF = float("inf")
MARKER = "v1"          # the frozen schema marker (docs/m13/snapshot_freeze.md), NOT read from the code

for _n in ("write_snapshot", "load_latest_snapshot"):
    if not callable(getattr(snap, _n, None)):
        raise HarnessError("seam missing: clematis.engine.snapshot.%s" % _n)
for _n in ("observe_retrieval", "tick", "apply_merge"):
    if not callable(getattr(gel_mod, _n, None)):
        raise HarnessError("seam missing: clematis.engine.gel.%s" % _n)


# ----------------------------------------------------------------------------- helpers
class _Store:
    def __init__(self, w=None):
        self.w = dict(w or {})


def deq(a, b) -> bool:
    """NaN-aware deep equality; bool is not a number; dict order irrelevant."""
    if isinstance(a, bool) or isinstance(b, bool):
        return type(a) is type(b) and a == b
    if isinstance(a, (int, float)) and isinstance(b, (int, float)):
        if isinstance(a, float) and math.isnan(a):
            return isinstance(b, float) and math.isnan(b)
        return a == b
    if isinstance(a, dict) and isinstance(b, dict):
        if set(a.keys()) != set(b.keys()):
            return False
        return all(deq(a[k], b[k]) for k in a)
    if isinstance(a, (list, tuple)) and isinstance(b, (list, tuple)):
        return len(a) == len(b) and all(deq(x, y) for x, y in zip(a, b))
    return type(a) is type(b) and a == b


def J(x) -> str:
    try:
        return json.dumps(x, sort_keys=True, ensure_ascii=False, default=repr)
    except Exception:
        return repr(x)


def diffpath(a, b, path=()):
    """first differing path between two JSON documents (sorted key order), or None"""
    if isinstance(a, dict) and isinstance(b, dict):
        for k in sorted(set(a) | set(b), key=str):
            if k not in a or k not in b:
                return path + (k,)
            p = diffpath(a[k], b[k], path + (k,))
            if p is not None:
                return p
        return None
    if isinstance(a, list) and isinstance(b, list):
        if len(a) != len(b):
            return path + ("#len",)
        for i, (x, y) in enumerate(zip(a, b)):
            p = diffpath(x, y, path + (i,))
            if p is not None:
                return p
        return None
    return None if deq(a, b) else path


def genpath(p) -> str:
    """generalise a path: ids / edge keys / indices -> '*'"""
    out = []
    for i, k in enumerate(p):
        if i >= 2 and p[0] == "gel" and p[1] in ("edges", "nodes") and i == 2:
            out.append("*")
        elif isinstance(k, int):
            out.append("*")
        else:
            out.append(str(k))
    return ".".join(out)


# ----------------------------------------------------------------------------- configs
CFGS = {
    # name: (t4 extra, graph section or None, expected (lo, hi) for GEL edge weights or None = unspecified)
    "t4-default": ({}, None, (-1.0, 1.0)),
    "graph-narrow": ({}, {"weight_min": -0.5, "weight_max": 0.5}, (-0.5, 0.5)),
    "t4-narrow": ({"weight_min": -0.25, "weight_max": 0.75}, None, (-0.25, 0.75)),
    "t4-posmin": ({"weight_min": 0.25, "weight_max": 0.75}, None, (0.25, 0.75)),
    "graph-inverted": ({}, {"weight_min": 1.0, "weight_max": -1.0}, None),
    # a bound that is exactly 0 (falsy): must not be read as "unset"
    "t4-zero-min": ({"weight_min": 0.0, "weight_max": 0.75}, None, (0.0, 0.75)),
    "graph-zero-max": ({}, {"weight_min": -0.5, "weight_max": 0.0}, (-0.5, 0.0)),
}


# configs of the live leg: the GEL layer is switched on (its operations are no-ops otherwise); kept out of CFGS so the
# F1 product is unchanged
LIVE_CFGS = {
    "gel-on": ({}, {"enabled": True}, (-1.0, 1.0)),
    # narrower than what two observations accumulate (2 x alpha = 0.04): the live weights get clamped on write
    "gel-on-narrow": ({}, {"enabled": True, "weight_min": -0.03, "weight_max": 0.03}, (-0.03, 0.03)),
}
ALL_CFGS = dict(CFGS, **LIVE_CFGS)


def mk_ctx(cfgname: str, d: str, agent: str, turn: int):
    t4x, g, _ = ALL_CFGS[cfgname]
    cfg = {"t4": dict({"snapshot_dir": d}, **t4x)}
    if g is not None:
        cfg["graph"] = dict(g)
    return types.SimpleNamespace(agent_id=agent, turn_id=turn, cfg=cfg, config=cfg)


def mk_state(shape: str, store, version, graph, field="graph"):
    if shape == "dict":
        st = {"store": store, "version_etag": version}
        if graph is not None:
            st[field] = graph
        return st
    st = types.SimpleNamespace(store=store, version_etag=version, graph=None, gel=None)
    if graph is not None:
        setattr(st, field, graph)
    return st


def sget(st, k):
    return st.get(k) if isinstance(st, dict) else getattr(st, k, None)


def clean_dir(d: str) -> None:
    os.makedirs(d, exist_ok=True)
    for e in os.scandir(d):
        if e.is_dir(follow_symlinks=False):
            shutil.rmtree(e.path, ignore_errors=True)
        else:
            os.unlink(e.path)


# ----------------------------------------------------------------------------- reference model (GEL section)
def pair_of(src, dst):
    a, b = str(src), str(dst)
    return (a, b) if a <= b else (b, a)


def edges_in(graph):
    if not isinstance(graph, dict):
        return []
    ge = graph.get("edges")
    if isinstance(ge, dict):
        return [e for e in ge.values() if isinstance(e, dict)]
    if isinstance(ge, list):
        return [e for e in ge if isinstance(e, dict)]
    return []


def nodes_in(graph):
    if not isinstance(graph, dict):
        return {}
    gn = graph.get("nodes")
    if isinstance(gn, dict):
        return {str(k): v for k, v in gn.items()}
    if isinstance(gn, list):
        return {str(n["id"]): n for n in gn if isinstance(n, dict) and n.get("id")}
    return {}


def wclass(w) -> str:
    if isinstance(w, float) and math.isnan(w):
        return "nan"
    if isinstance(w, float) and math.isinf(w):
        return "inf"
    return "finite"


def weight_ok(w_in, w_out, bounds):
    """is w_out an acceptable 'clamped to bounds, rounded to six decimals' image of w_in?  -> (ok, why)"""
    if isinstance(w_out, bool) or not isinstance(w_out, (int, float)) or not math.isfinite(w_out):
        return False, "not-finite"
    if round(float(w_out), 6) != float(w_out):
        return False, "not-rounded"
    if bounds is None:
        return True, ""
    lo, hi = bounds
    tol = 0.5e-6 * (1 + 1e-6) + 1e-12
    if math.isnan(w_in):
        # NaN cannot be clamped: any value inside the bounds is a defensible image
        return (lo - tol <= w_out <= hi + tol), "out-of-bounds"
    c = min(max(w_in, lo), hi)
    if abs(w_out - c) <= tol:
        return True, ""
    if not (lo - tol <= w_out <= hi + tol):
        return False, "out-of-bounds"
    return False, "wrong-value"


def _norm_attrs(e):
    a = e.get("attrs")
    return {} if a is None else a


def ref_check_written(graph_in, gel_w, bounds):
    """compare the GEL section of the snapshot body with the reference image of the input graph"""
    out = []
    if not isinstance(gel_w, dict) or not isinstance(gel_w.get("edges"), dict) or not isinstance(gel_w.get("nodes"), dict):
        return [("written-gel:shape", "gel section is not {nodes:{}, edges:{}}: %s" % J(gel_w)[:200])]
    ein = edges_in(graph_in)
    by_pair = {}
    for e in ein:
        by_pair.setdefault(pair_of(e.get("src", ""), e.get("dst", "")), []).append(e)
    wr = gel_w["edges"]
    seen = {}
    for k, rec in wr.items():
        if not isinstance(rec, dict):
            out.append(("written-gel:shape", "edge record %r is not an object" % (k,)))
            continue
        p = pair_of(rec.get("src", ""), rec.get("dst", ""))
        seen[p] = k
        cands = by_pair.get(p)
        if not cands:
            out.append(("written-gel:edge-invented", "written edge %r %s has no source edge in %s" % (k, J(rec), J(ein))))
            continue
        # some input edge on that pair must explain the record; otherwise name the clause at which the
        # closest candidate (the one agreeing on most fields) fails
        best, best_rank = None, -1
        for e in cands:
            w_e = float(e.get("weight", 0.0))
            okw, whyw = weight_ok(w_e, rec.get("weight"), bounds)
            if not okw:
                why, rank = "weight-" + whyw + ":" + wclass(w_e), 0
            elif str(rec.get("rel")) != str(e.get("rel", "coact")):
                why, rank = "field:rel", 1
            elif not deq(_norm_attrs(rec), _norm_attrs(e)):
                why, rank = "field:attrs", 2
            elif not deq(rec.get("updated_at"), e.get("updated_at")):
                why, rank = "field:updated_at", 3
            elif {str(rec.get("src")), str(rec.get("dst"))} != {str(e.get("src", "")), str(e.get("dst", ""))}:
                why, rank = "field:endpoints", 4
            else:
                best = None
                break
            if rank > best_rank:
                best, best_rank = why, rank
        if best is not None:
            out.append(("written-gel:" + best, "input edge(s) %s written as %s under bounds %s" % (J(cands), J(rec), bounds)))
    for p in by_pair:
        if p not in seen:
            out.append(("written-gel:edge-lost", "input edge(s) %s on pair %r absent from written edges %s" % (
                J(by_pair[p]), p, J(sorted(wr)))))
    nin = nodes_in(graph_in)
    if not deq(nin, gel_w["nodes"]):
        out.append(("written-gel:nodes", "input nodes %s written as %s" % (J(nin), J(gel_w["nodes"]))))
    # meta: well-shaped fields preserved
    meta_in = graph_in.get("meta") if isinstance(graph_in, dict) else None
    meta_w = gel_w.get("meta") if isinstance(gel_w.get("meta"), dict) else {}
    if isinstance(meta_in, dict):
        for k in ("merges", "splits", "promotions"):
            if isinstance(meta_in.get(k), list) and not deq(meta_in[k], meta_w.get(k)):
                out.append(("written-gel:meta:lists", "meta.%s %s written as %s" % (k, J(meta_in[k]), J(meta_w.get(k)))))
        c = meta_in.get("concept_nodes_count")
        if isinstance(c, int) and not isinstance(c, bool) and not deq(c, meta_w.get("concept_nodes_count")):
            out.append(("written-gel:meta:counter", "meta.concept_nodes_count %r written as %r" % (c, meta_w.get("concept_nodes_count"))))
    return out


def cmp_loaded(graph_l, gel_w, where):
    """loaded state.graph must equal the written GEL section"""
    out = []
    if not isinstance(graph_l, dict):
        return [("loaded-gel:shape", "%s: state.graph is %r" % (where, type(graph_l).__name__))]
    le, we = graph_l.get("edges"), gel_w.get("edges")
    if not deq(le, we):
        if isinstance(le, dict) and isinstance(we, dict) and set(le) != set(we):
            out.append(("loaded-gel:edges:keys", "%s: loaded edge keys %s != written %s" % (where, J(sorted(le)), J(sorted(we)))))
        else:
            p = diffpath(we, le) or ()
            out.append(("loaded-gel:edges:" + (str(p[-1]) if p else "?"),
                        "%s: loaded edges %s != written %s" % (where, J(le), J(we))))
    if not deq(graph_l.get("nodes"), gel_w.get("nodes")):
        out.append(("loaded-gel:nodes", "%s: loaded nodes %s != written %s" % (where, J(graph_l.get("nodes")), J(gel_w.get("nodes")))))
    ml = graph_l.get("meta") if isinstance(graph_l.get("meta"), dict) else {}
    mw = gel_w.get("meta") if isinstance(gel_w.get("meta"), dict) else {}
    for k in mw:
        if k not in ml or not deq(ml[k], mw[k]):
            out.append(("loaded-gel:meta", "%s: loaded meta.%s %s != written %s" % (where, k, J(ml.get(k)), J(mw[k]))))
            break
    return out


# ----------------------------------------------------------------------------- marker
def check_marker(body_path: str, doc, where: str, body_must=True):
    out = []
    if body_must and not (isinstance(doc, dict) and doc.get("schema_version") == MARKER):
        out.append(("marker:body", "%s: body schema_version = %r, expected %r" % (
            where, doc.get("schema_version") if isinstance(doc, dict) else None, MARKER)))
    sp = body_path + ".meta"
    try:
        with open(sp, "r", encoding="utf-8") as f:
            meta = json.load(f)
    except Exception as e:
        out.append(("marker:sidecar", "%s: sidecar %s unreadable (%s)" % (where, os.path.basename(sp), type(e).__name__)))
        return out
    if not (isinstance(meta, dict) and meta.get("schema_version") == MARKER):
        out.append(("marker:sidecar", "%s: sidecar schema_version = %r, expected %r" % (
            where, meta.get("schema_version") if isinstance(meta, dict) else None, MARKER)))
    return out


# ----------------------------------------------------------------------------- round-trip chain
def build_w(store_spec):
    if store_spec is None:
        return None
    return _Store({(k, i, a): v for k, i, a, v in store_spec})


def w_as_list(w):
    return sorted(([list(k), v] for k, v in w.items()), key=lambda t: t[0])


def _edge_feature(case, doc, p):
    """tag a weight-related fixpoint difference with the input class of the responsible edge"""
    try:
        rec = doc["gel"]["edges"][p[2]]
        pr = pair_of(rec.get("src", ""), rec.get("dst", ""))
        ws = [float(e.get("weight", 0.0)) for e in edges_in(case.get("graph")) if pair_of(e.get("src", ""), e.get("dst", "")) == pr]
        cls = sorted({wclass(w) for w in ws})
        if "nan" in cls:
            cls = ["nan"]     # one NaN edge on the pair is the cause, whatever else shares the pair
        b = ALL_CFGS[case["cfg"]][2]
        z = "" if b is None or b[0] <= 0.0 <= b[1] else ",bounds-exclude-0"
        return ":" + "+".join(cls) + "-weight" + z
    except Exception:
        return ""


# ----------------------------------------------------------------------------- live states (layout + GEL history)
MIRRORS = ["absent", "same", "shallow", "deep", "empty", "stale"]
GEL_OPS = ["obs2", "obs3", "tick", "merge"]
STALE_GEL = {"nodes": {"x": {"id": "x", "label": "old", "attrs": {}}},
             "edges": {"x→y": {"id": "x→y", "src": "x", "dst": "y", "rel": "coact", "weight": 0.5,
                               "attrs": {"coact": 9, "last_seen_turn": 1}, "updated_at": None}},
             "meta": {"schema": "v1.1", "merges": [], "splits": [], "promotions": [], "concept_nodes_count": 0, "edges_count": 1}}


def set_field(st, k, v):
    if isinstance(st, dict):
        st[k] = v
    else:
        setattr(st, k, v)


def apply_live(case, s0, ctx, tags):
    """lay out the `gel` mirror next to `graph` as the case says, then run the case's GEL operations on the state
    through the real engine entry points.  -> None, or (sig, what) when an engine operation raises"""
    mirror = case.get("mirror", "absent")
    g = sget(s0, "graph")
    if mirror == "same":
        set_field(s0, "gel", g)
    elif mirror == "shallow":        # scripts/chat.py _empty_state(): two dict() copies of one literal
        set_field(s0, "gel", dict(g))
    elif mirror == "deep":
        set_field(s0, "gel", copy.deepcopy(g))
    elif mirror == "empty":          # scripts/chat.py reset: two separately built empty graphs
        set_field(s0, "gel", {"nodes": {}, "edges": {}, "meta": {"schema": "v1.1"}})
    elif mirror == "stale":
        set_field(s0, "gel", copy.deepcopy(STALE_GEL))
    elif mirror != "absent":
        raise HarnessError("unknown mirror layout %r" % (mirror,))
    tags.add("mirror=" + mirror)
    before = copy.deepcopy(sget(s0, "graph"))
    turn, agent = case.get("turn", 3), case["agent"]
    for i, op in enumerate(case.get("ops") or []):
        try:
            if op == "obs2":
                gel_mod.observe_retrieval(ctx, s0, [("a", 0.9), ("b", 0.8)], turn=turn, agent=agent)
            elif op == "obs3":
                gel_mod.observe_retrieval(ctx, s0, [("a", 0.9), ("ç", 0.8), ("b", 0.7)], turn=turn, agent=agent)
            elif op == "tick":
                gel_mod.tick(ctx, s0, decay_dt=1, turn=turn, agent=agent)
            elif op == "merge":
                gel_mod.apply_merge(ctx, s0, {"nodes": ["a", "b"], "size": 2, "avg_w": 0.5, "diameter": 1, "signature": "a|b"})
            else:
                raise HarnessError("unknown GEL op %r" % (op,))
        except HarnessError:
            raise
        except Exception as e:
            return ("live:gel-op-raises:" + type(e).__name__, "GEL op #%d %s on the state raised %r" % (i + 1, op, e))
    if case.get("ops"):
        tags.add("ops=%d" % len(case["ops"]))
        if not deq(before, sget(s0, "graph")):
            tags.add("graph-evolved")
    gl, gm = sget(s0, "graph"), sget(s0, "gel")
    if gm is not None and gm is not gl:
        tags.add("mirror-diverged" if not deq(gm, gl) else "mirror-equal-copy")
    return None


def is_live(case) -> bool:
    return "mirror" in case or bool(case.get("ops"))


def check_rt(case, d, collapse=True):
    """returns (violations [(sig, what)], outcome tags, n_transitions)"""
    out = []
    tags = set()
    steps = 0
    clean_dir(d)
    agent, version, shape, cfgname = case["agent"], case["version"], case["shape"], case["cfg"]
    bounds = ALL_CFGS[cfgname][2]
    ctx = mk_ctx(cfgname, d, agent, case.get("turn", 3))
    graph_in = json.loads(json.dumps(case.get("graph")))  # private copy (NaN/Infinity survive)
    store0 = build_w(case.get("store"))
    w0 = dict(store0.w) if store0 is not None else {}
    s0 = mk_state(shape, store0, version, graph_in, case.get("field", "graph"))
    graph_ref = case.get("graph")
    mirror_ref = None
    if is_live(case):
        err = apply_live(case, s0, ctx, tags)
        if err is not None:
            return [err], tags | {"gel-op-raises"}, steps
        # the graph the snapshot is written from: the live state.graph at write time
        graph_ref = copy.deepcopy(sget(s0, "graph"))
        if "mirror-diverged" in tags:
            mirror_ref = copy.deepcopy(sget(s0, "gel"))

    # ---- write 1
    try:
        p1 = snap.write_snapshot(ctx, s0, version, applied=2, deltas=None)
        steps += 1
    except Exception as e:
        return [("write:raises:" + type(e).__name__, "write_snapshot raised %r" % (e,))], {"write-raises"}, steps
    try:
        with open(p1, "rb") as f:
            b1 = f.read()
        doc1 = json.loads(b1.decode("utf-8"))
    except Exception as e:
        return [("write:body-unreadable", "body %s not readable as one JSON document: %r" % (p1, e))], {"unreadable"}, steps
    if os.path.basename(p1) != "state_%s.json" % agent or os.path.dirname(os.path.abspath(p1)) != os.path.abspath(d):
        tags.add("path-other")
    out += check_marker(p1, doc1, "write#1")
    gel_w = doc1.get("gel") if isinstance(doc1, dict) else None
    if not isinstance(gel_w, dict):
        out.append(("written-gel:shape", "body has no gel section"))
        return out, tags, steps
    wr = ref_check_written(graph_ref, gel_w, bounds)
    if collapse and wr and mirror_ref is not None and not ref_check_written(mirror_ref, gel_w, bounds):
        # one root cause, one signature: the body is not the image of state.graph but it IS the image of the mirror
        wr = [("written-gel:taken-from-gel-mirror", "body gel section %s is the image of state.gel %s, not of the live state.graph %s" % (
            J(gel_w)[:300], J(mirror_ref)[:300], J(graph_ref)[:300]))]
    out += wr

    # outcome / sanitisation tags (for anti-vacuity and the non-trivial rule)
    ein = edges_in(graph_ref)
    for e in ein:
        w = float(e.get("weight", 0.0))
        if not math.isfinite(w):
            tags.add("nonfinite")
        elif bounds and not (bounds[0] <= w <= bounds[1]):
            tags.add("clamped")
        elif round(w, 6) != w:
            tags.add("rounded")
        else:
            tags.add("kept")
        if str(e.get("src", "")) > str(e.get("dst", "")):
            tags.add("reversed")
    if isinstance((graph_ref or {}).get("edges"), list):
        tags.add("list-edges")
    if isinstance((graph_ref or {}).get("nodes"), list):
        tags.add("list-nodes")
    if len({pair_of(e.get("src", ""), e.get("dst", "")) for e in ein}) < len(ein):
        tags.add("collapsed")
    if any(isinstance(v, float) and not math.isfinite(v) for v in w0.values()):
        tags.add("store-nonfinite")
    tags.add("edges=%d" % len(gel_w.get("edges", {})))

    # ---- load / write chain
    prev_bytes, prev_doc = b1, doc1
    prev_state = None
    for hop in (1, 2):
        # fresh state of the same kind as the one written (a state without a store stays without one)
        sN = mk_state(shape, _Store() if store0 is not None else None, None, None)
        try:
            info = snap.load_latest_snapshot(ctx, sN)
            steps += 1
        except Exception as e:
            out.append(("load:raises:" + type(e).__name__, "load#%d raised %r" % (hop, e)))
            return out, tags, steps
        if not (isinstance(info, dict) and info.get("loaded")):
            out.append(("load:not-loaded", "load#%d returned %s" % (hop, J(info))))
            return out, tags, steps
        if not info.get("path") or os.path.abspath(info["path"]) != os.path.abspath(p1):
            out.append(("load:wrong-path", "load#%d read %r, written body is %r" % (hop, info.get("path"), p1)))
        ver_l = sget(sN, "version_etag")
        if ver_l != version:
            out.append((vsig("version:mismatch", version), "load#%d: version %r, written %r" % (hop, ver_l, version)))
        if store0 is not None:
            wl = sget(sN, "store").w
            if not deq({k: v for k, v in wl.items()}, w0):
                cls = "nonfinite" if "store-nonfinite" in tags else "finite"
                out.append(("store:mismatch:" + cls, "load#%d: store weights %s, written from %s" % (hop, J(w_as_list(wl)), J(w_as_list(w0)))))
        gl = sget(sN, "graph")
        out += cmp_loaded(gl, gel_w, "load#%d" % hop)
        if prev_state is not None:
            # second load must restore the same state as the first one
            a = {"v": sget(prev_state, "version_etag"), "w": _w_of(prev_state), "g": sget(prev_state, "graph")}
            b = {"v": ver_l, "w": _w_of(sN), "g": gl}
            if not deq(a, b):
                out.append(("chain:second-load-differs", "state after load#2 %s != state after load#1 %s" % (J(b), J(a))))
        # ---- write again from the loaded state, with the loaded version
        try:
            pN = snap.write_snapshot(ctx, sN, ver_l if ver_l is not None else version, applied=2, deltas=None)
            steps += 1
            with open(pN, "rb") as f:
                bN = f.read()
        except Exception as e:
            out.append(("write:raises:" + type(e).__name__, "write#%d (from loaded state) raised %r" % (hop + 1, e)))
            return out, tags, steps
        if bN != prev_bytes:
            try:
                docN = json.loads(bN.decode("utf-8"))
                p = diffpath(prev_doc, docN)
            except Exception:
                docN, p = None, ("unparseable",)
            if p is None:
                sig = "fixpoint:bytes-differ-same-document"
            else:
                sig = "fixpoint:" + genpath(p)
                if len(p) >= 4 and p[0] == "gel" and p[1] == "edges" and p[-1] == "weight":
                    sig += _edge_feature(dict(case, graph=graph_ref), prev_doc, p)
            out.append((sig, "write#%d differs from write#%d at %s: %s -> %s" % (
                hop + 1, hop, "/".join(map(str, p or ())), _at(prev_doc, p), _at(docN, p))))
            tags.add("not-fixpoint")
            return out, tags, steps
        try:
            docN = json.loads(bN.decode("utf-8"))
        except Exception:
            docN = None
        out += check_marker(pN, docN, "write#%d" % (hop + 1))
        prev_state = sN
    return out, tags, steps


def vclass(version) -> str:
    """input class of a version string ('' for an ordinary one)"""
    if not isinstance(version, str):
        return "non-string"
    if version == "":
        return "empty"
    if version.strip() == "":
        return "blank"
    if version in ("0", "00", "0.0", "-0", "None", "null", "false", "False", "[]", "{}"):
        return "literal-lookalike"
    return ""


def vsig(sig: str, version) -> str:
    c = vclass(version)
    return sig + (":version-" + c if c else "")


def _w_of(state):
    s = sget(state, "store")
    return None if s is None else w_as_list(s.w)


def _at(doc, p):
    try:
        for k in p or ():
            if k == "#len":
                return "len=%d" % len(doc)
            doc = doc[k]
        return J(doc)[:160]
    except Exception:
        return "<absent>"


def dedupe(res):
    """one signature per root cause: an edge weight that is not stable shows up as out-of-bounds on write, as a
    different weight after load and as a different second body; only the most downstream (hardest) clause is kept"""
    sigs = [s for s, _ in res]
    if any(s.startswith("fixpoint:gel.edges.*.weight") for s in sigs):
        res = [(s, w) for s, w in res if not (s.startswith("written-gel:weight-out-of-bounds") or s == "loaded-gel:edges:weight")]
    elif "loaded-gel:edges:weight" in sigs:
        res = [(s, w) for s, w in res if not s.startswith("written-gel:weight-out-of-bounds")]
    seen, out = set(), []
    for sig, what in res:
        if sig not in seen:
            seen.add(sig)
            out.append((sig, what))
    return out


def live_class(case) -> str:
    """input class of a live case: how the `gel` mirror relates to `graph`"""
    m = case.get("mirror", "absent")
    part = {"absent": "graph-only", "same": "gel-is-graph", "shallow": "gel-shallow-copy"}.get(m, "gel-distinct-object")
    return "live[%s]" % part


def _unversion(res, case, rerun):
    """a failure tagged with the class of the version string keeps the tag only if the twin with an ordinary version
    does not show it (then it IS about the version value); the twin is only executed when there is such a failure"""
    if not any(":version-" in s_ for s_, _ in res):
        return res
    tw = {s_ for s_, _ in rerun(dict(case, version="41"))}
    out, seen = [], set()
    for s_, w in res:
        if ":version-" in s_ and s_.split(":version-")[0] in tw:
            s_ = s_.split(":version-")[0]
        if s_ not in seen:
            seen.add(s_)
            out.append((s_, w))
    return out


def finalize_rt(case, res, d):
    """dedupe; for a live case with a `gel` mirror, name the layout in the signature of those failures only that the
    graph-only twin (same initial graph, same GEL history, no mirror) does not show - a failure the twin shows as
    well is not about the layout and keeps its plain signature.  The twin is only executed when there is a failure."""
    res = dedupe(res)
    res = _unversion(res, case, lambda c: dedupe(check_rt(c, d)[0]))
    if res and is_live(case) and case.get("mirror", "absent") != "absent":
        twin = dict(case, mirror="absent")
        tw = {s for s, _ in dedupe(check_rt(twin, d)[0])}
        if tw:
            res = dedupe(check_rt(case, d, collapse=False)[0])
        res = [((s if s in tw else live_class(case) + ":" + s), w) for s, w in res]
    return res


def _rt_worker(chunk, st: Stats, scratch_root):
    d = os.path.join(scratch_root, "rt-w%d" % os.getpid())
    os.makedirs(d, exist_ok=True)
    import logging
    logging.disable(logging.CRITICAL)
    first = True
    for case in chunk:
        res, tags, steps = check_rt(case, d)
        if first:
            # determinism of the harness itself: the first execution is replayed and must agree
            res2, tags2, _ = check_rt(case, d)
            if J(sorted(s for s, _ in res)) != J(sorted(s for s, _ in res2)) or tags != tags2:
                raise HarnessError("nondeterministic replay of %s" % J(case))
            first = False
        st.add("transitions", steps)
        st.add("validated")
        st.add("rt_cases")
        st.distinct("states", case)
        res = finalize_rt(case, res, d)
        oc = tuple(sorted(tags)) + tuple(sorted("FAIL:" + s for s, _ in res))
        st.distinct("outcomes", (case["cfg"],) + oc)
        if is_live(case):
            st.add("live_cases")
        if tags & {"nonfinite", "clamped", "rounded", "reversed", "list-edges", "list-nodes", "collapsed", "store-nonfinite",
                   "graph-evolved", "mirror-diverged", "mirror-equal-copy"}:
            st.add("nontrivial")
        for sig, what in res:
            st.violation(sig, what, case)
    if chunk:
        st.sample(chunk[len(chunk) // 2])
    shutil.rmtree(d, ignore_errors=True)


# ----------------------------------------------------------------------------- enumeration of states
IDS = ["a", "b", "é→x", ""]
RELS = ["coact", "concept"]
WEIGHTS = [NAN, INF, -INF, 7.0, -7.0, 0.1234565, 1e-9, 0.5, -0.25]
ATTRS = ["<missing>", {}, {"coact": 3, "last_seen_turn": None}]
UPDS = ["<missing>", None, "2025-01-01T00:00:00Z"]
CONTAINERS = ["dict-canon", "dict-listed", "dict-legacy", "list"]


def mk_edge(src, dst, rel, w, attrs="<missing>", upd="<missing>"):
    e = {"src": src, "dst": dst, "rel": rel, "weight": w}
    if not (isinstance(attrs, str) and attrs == "<missing>"):
        e["attrs"] = attrs
    if not (isinstance(upd, str) and upd == "<missing>"):
        e["updated_at"] = upd
    return e


def edge_key(e, style):
    a, b = pair_of(e["src"], e["dst"])
    if style == "dict-canon":
        return "%s→%s" % (a, b)
    if style == "dict-listed":
        return "%s→%s" % (e["src"], e["dst"])
    return "%s__%s__%s" % (a, b, e["rel"])


def mk_graph(edges, container, nodes="<missing>", meta="<missing>"):
    """returns a graph dict, or None when the dict container cannot hold the edges (key collision)"""
    g = {}
    if not (isinstance(nodes, str) and nodes == "<missing>"):
        g["nodes"] = nodes
    if container == "list":
        g["edges"] = [dict(e) for e in edges]
    else:
        ed = {}
        for e in edges:
            k = edge_key(e, container)
            if k in ed:
                return None
            ed[k] = dict(e, id=k) if container != "dict-legacy" else dict(e)
        g["edges"] = ed
    if not (isinstance(meta, str) and meta == "<missing>"):
        g["meta"] = meta
    return g


def base_case(graph, cfg="t4-default", **kw):
    c = {"kind": "rt", "agent": "A", "version": "41", "shape": "dict", "cfg": cfg, "store": None, "graph": graph,
         "field": "graph", "turn": 3}
    c.update(kw)
    return c


def store_maps(thorough: bool):
    keys = [("node", "a", "weight"), ("edge", "é→x", "weight"), ("node", "", "w")]
    vals = [0, 0.1234567891, -2.0, NAN, INF, -INF]
    maps = [None, []]
    ents = [(k, v) for k in keys for v in vals]
    for k, v in ents:
        maps.append([[k[0], k[1], k[2], v]])
    if not thorough:   # quick: two-entry maps over the value sub-alphabet {0.1234567891, NaN, -inf}
        ents = [(k, v) for k in keys for v in (0.1234567891, NAN, -INF)]
    for (k1, v1), (k2, v2) in itertools.permutations(ents, 2):   # both insertion orders
        if k1 != k2:
            maps.append([[k1[0], k1[1], k1[2], v1], [k2[0], k2[1], k2[2], v2]])
    return maps


VERSIONS_B = ["", " ", "0", "00", "None", "null", "false", "é→x"]
VERSIONS_B_DEEP = ["\n", "\t ", "0.0", "-0", "False", "[]", "{}", "\u2028", "v" * 300]


def version_alphabet(thorough: bool):
    return VERSIONS_B + (VERSIONS_B_DEEP if thorough else [])


def enumerate_rt(thorough: bool):
    cases = []
    skipped = 0
    cfgs = list(CFGS)
    shapes = [(s, t, r) for s in IDS for t in IDS for r in RELS]

    # F1 — one edge: every (src,dst,rel) x weight x container x bounds cfg [x attrs x updated_at]
    #      (thorough: the full attrs x updated_at product under the cfgs {t4-default, t4-posmin}, one fixed
    #       attrs/updated_at pair under the other three)
    au_fixed = (ATTRS[2], UPDS[1])
    au_all = [(a, u) for a in ATTRS for u in UPDS]
    for (s, t, r) in shapes:
        for w in WEIGHTS:
            for cfg in cfgs:
                for (a, u) in (au_all if (thorough and cfg in ("t4-default", "t4-posmin")) else [au_fixed]):
                    for cont in CONTAINERS:
                        cases.append(base_case(mk_graph([mk_edge(s, t, r, w, a, u)], cont), cfg))
    if not thorough:
        for (s, t, r) in (("a", "b", "coact"), ("b", "a", "concept")):
            for w in (7.0, 0.1234565):
                for a in ATTRS:
                    for u in UPDS:
                        for cont in CONTAINERS:
                            cases.append(base_case(mk_graph([mk_edge(s, t, r, w, a, u)], cont)))

    # F2 — two edges (ordered): shapes over ids {a,b,""}, weight pairs, list + canonical dict containers
    ids2 = ["a", "b", ""]
    shapes2 = [(s, t, r) for s in ids2 for t in ids2 for r in RELS]
    w2 = [NAN, 7.0, -7.0, 0.1234565, 0.5] if thorough else [NAN, 7.0]
    cfg2 = ["t4-default", "t4-posmin"] if thorough else ["t4-default"]
    for sh1 in shapes2:
        for sh2 in shapes2:
            for wa in w2:
                for wb in w2:
                    for cont in ("list", "dict-canon"):
                        g = mk_graph([mk_edge(*sh1, wa), mk_edge(*sh2, wb, {"coact": 1}, None)], cont)
                        if g is None:
                            skipped += 1
                            continue
                        for cfg in cfg2:
                            cases.append(base_case(g, cfg))

    # F3 — three edges (ordered)
    if thorough:
        shapes3 = [(s, t, "coact") for s in ("a", "b") for t in ("a", "b")] + \
                  [("a", "é→x", "coact"), ("é→x", "a", "coact"), ("b", "é→x", "coact"),
                   ("a", "b", "concept"), ("b", "a", "concept")]
        w3 = [NAN, 7.0, 0.5]
    else:
        shapes3 = [("a", "b", "coact"), ("b", "a", "coact"), ("a", "b", "concept"), ("b", "é→x", "coact")]
        w3 = [7.0, 0.5]
    for sh in itertools.product(shapes3, repeat=3):
        for ws in itertools.product(w3, repeat=3):
            for cont in ("list", "dict-canon"):
                if cont == "dict-canon" and any(isinstance(w, float) and math.isnan(w) for w in ws):
                    continue   # three-edge dict containers: finite weights only (NaN triples are covered list-shaped)
                g = mk_graph([mk_edge(*sh[i], ws[i]) for i in range(3)], cont)
                if g is None:
                    skipped += 1
                    continue
                cases.append(base_case(g))

    # F4 — store maps x versions x agents x state shape x graph field x {no graph, one-edge graph}
    g1 = mk_graph([mk_edge("b", "a", "coact", 7.0, {"coact": 2}, None)], "dict-canon",
                  nodes={"a": {"id": "a", "label": "é", "attrs": {}}})
    for sm in store_maps(thorough):
        for ver in ("0", "41"):
            for ag in ("A", "é"):
                for shp in ("dict", "ns"):
                    for fld, g in (("graph", None), ("graph", g1), ("gel", g1)):
                        cases.append(base_case(g, store=sm, version=ver, agent=ag, shape=shp, field=fld))

    # F7 — the value of the version string: empty, blank, number / literal look-alikes, unicode (an ordinary version is
    #      in F4).  Cases where neither a store nor a graph is written are left out: whether such a body counts as
    #      "loaded" is not stated by the property.
    for ver in version_alphabet(thorough):
        for ag in ("A", "é"):
            for shp in ("dict", "ns"):
                for sm, g in ((None, g1), ([["node", "a", "weight", 0.5]], None), ([["node", "a", "weight", 0.5]], g1)):
                    cases.append(base_case(g, store=sm, version=ver, agent=ag, shape=shp))

    # F5 — meta lists / counters, well- and ill-shaped
    L = ["<missing>", [], [{"id": "m1", "members": ["a", "b"]}], "x", None, {"k": 1}, 0]
    C = ["<missing>", 0, 3, "4", 2.5, None, NAN, INF, "x", True, [1]]
    e1 = [mk_edge("a", "b", "coact", 0.5, {}, None)]

    def meta_of(m, s, p, c, extra=None):
        md = {}
        for k, v in (("merges", m), ("splits", s), ("promotions", p), ("concept_nodes_count", c)):
            if not (isinstance(v, str) and v == "<missing>"):
                md[k] = v
        md.update(extra or {})
        return md
    if thorough:
        combos = itertools.product(L, L, L, C)
    else:
        combos = [(m, "<missing>", "<missing>", c) for m in L for c in C] + \
                 [("<missing>", s, "<missing>", 3) for s in L] + [("<missing>", "<missing>", p, 3) for p in L]
    for (m, s, p, c) in combos:
        cases.append(base_case(mk_graph(e1, "dict-canon", nodes={}, meta=meta_of(m, s, p, c))))
    for meta in ("<missing>", None, {}, {"schema": "v1"}, {"schema": "v1", "edges_count": 99, "last_update": "t9"}):
        for cont in ("dict-canon", "list"):
            cases.append(base_case(mk_graph(e1, cont, nodes={}, meta=meta)))
            cases.append(base_case(mk_graph([], cont, nodes={}, meta=meta)))

    # F6 — nodes containers
    def node(nid, full):
        return {"id": nid, "label": "é" if nid == "a" else None, "attrs": {"kind": "concept"}} if full else {"id": nid}
    for full in (True, False):
        for k in range(len(IDS) + 1):
            for sub in itertools.combinations(IDS, k):
                cases.append(base_case(mk_graph(e1, "dict-canon", nodes={i: node(i, full) for i in sub})))
        ids_l = [i for i in IDS if i]
        for k in range(len(ids_l) + 1):
            for sub in itertools.permutations(ids_l, k):
                cases.append(base_case(mk_graph(e1, "list", nodes=[node(i, full) for i in sub])))
    cases.append(base_case(None))
    cases.append(base_case({}))
    cases.append(base_case({"nodes": {}, "edges": {}}))
    # the families overlap (e.g. 'dict-listed' == 'dict-canon' for src <= dst): keep each state once
    seen, uniq = set(), []
    for c in cases:
        k = json.dumps(c, sort_keys=True)
        if k not in seen:
            seen.add(k)
            uniq.append(c)
    return uniq, skipped


def live_graphs():
    e = mk_edge("a", "b", "coact", 0.5, {"coact": 1, "last_seen_turn": None}, None)
    full_meta = {"schema": "v1.1", "merges": [], "splits": [], "promotions": [], "concept_nodes_count": 0, "edges_count": 0}
    return [
        ("none", None),
        ("empty", {"nodes": {}, "edges": {}, "meta": dict(full_meta)}),
        ("one-edge", mk_graph([e], "dict-canon", nodes={"a": {"id": "a", "label": "é", "attrs": {}}}, meta=dict(full_meta, edges_count=1))),
    ]


def live_bound(thorough: bool) -> int:
    return 3 if thorough else 2


def enumerate_live(thorough: bool):
    """state-field layouts x GEL histories (all op sequences up to the bound) x state shape x live cfg.
    Only states whose live graph holds at least one edge at write time are enumerated (an initial edge, or an
    observation in the history): for an empty / absent state.graph the documented `gel` fallback applies and the
    property does not say which of the two is 'the graph that was written'."""
    L = live_bound(thorough)
    seqs = [()]
    for n in range(1, L + 1):
        seqs += list(itertools.product(GEL_OPS, repeat=n))
    cases = []
    for gname, g0 in live_graphs():
        for mirror in MIRRORS:
            if g0 is None and mirror in ("same", "shallow", "deep"):
                continue          # nothing to mirror
            for ops in seqs:
                if gname != "one-edge" and not any(o.startswith("obs") for o in ops):
                    continue      # live graph would be empty at write time
                if mirror == "absent" and not ops:
                    continue      # plain rt case (F1)
                for shp in ("dict", "ns"):
                    for cfg in LIVE_CFGS:
                        cases.append(base_case(copy.deepcopy(g0), cfg, shape=shp, store=[["node", "a", "weight", 0.5]],
                                               mirror=mirror, ops=list(ops)))
    return cases


# ----------------------------------------------------------------------------- environment answers
# Every process-environment variable the snapshot writers consult (grep of snapshot.py / io/atomic.py for os.environ;
# the directory variables of io/paths.py are overridden by the explicit t4.snapshot_dir of every ctx here).
ENV_ALPHABET = {
    "SOURCE_DATE_EPOCH": [
        # (value or None = unset, class)
        (None, "unset"),
        ("1735689600", "integer"), ("0", "integer"), ("-1", "integer"), (" 1735689600 ", "integer"),
        ("", "not-an-integer"), ("2025-01-01", "not-an-integer"), ("1735689600.5", "not-an-integer"),
        ("1735689600000000000", "integer-beyond-time-range"),     # `date +%s%N`
    ],
}
ENV_UNUSABLE = {"not-an-integer", "integer-beyond-time-range"}


def env_class(var, value) -> str:
    for v, c in ENV_ALPHABET.get(var, ()):
        if v == value:
            return c
    return "other"


ENV_PINNED = {"SOURCE_DATE_EPOCH": "1735689600"}     # the environment of every other leg


def _run_under_env(env, sub, d):
    saved = {k: os.environ.get(k) for k in env}
    try:
        for k, v in env.items():
            if v is None:
                os.environ.pop(k, None)
            else:
                os.environ[k] = v
        if sub.get("kind") == "rt":
            res, tags, steps = check_rt(sub, d)
            res = finalize_rt(sub, res, d)
        elif sub.get("kind") == "auto-marker":
            res = [(s, w) for s, _lab, w in check_auto_marker(d)]
            tags, steps = {"auto"}, 3
        else:
            raise HarnessError("unknown env sub-case kind %r" % sub.get("kind"))
    finally:
        for k, v in saved.items():
            if v is None:
                os.environ.pop(k, None)
            else:
                os.environ[k] = v
    return res, tags, steps


def check_env(case, d):
    """run the sub-case with the process environment of the case; -> (violations, tags, transitions).
    A failure that the same sub-case also shows under the pinned environment is not about the environment and keeps
    its plain signature; the pinned twin is only executed when there is a failure."""
    env = case["env"]
    sub = case["sub"]
    res, tags, steps = _run_under_env(env, sub, d)
    base = set()
    if res and any(ENV_PINNED.get(k) != v for k, v in env.items()):
        base = {s for s, _ in _run_under_env({k: ENV_PINNED[k] for k in env}, sub, d)[0]}
    classes = sorted("%s:%s" % (k, env_class(k, v)) for k, v in env.items())
    if any(env_class(k, v) in ENV_UNUSABLE for k, v in env.items()):
        # a writer that refuses loudly under an unusable value has written no snapshot: nothing to judge
        refused = [s for s, _ in res if s.startswith(("write:raises", "auto:raises")) and s not in base]
        if refused:
            tags = set(tags) | {"write-refused"}
            res = [(s, w) for s, w in res if s not in refused]
    label = "env[%s]" % ",".join(classes)
    what_env = " ".join("%s=%r" % (k, v) for k, v in sorted(env.items()))
    seen, out = set(), []
    pinned = all(ENV_PINNED.get(k) == v for k, v in env.items())
    for s, w in res:
        if s not in seen:
            seen.add(s)
            out.append((s if (pinned or s in base) else label + ":" + s, "%s: %s" % (what_env, w)))
    return out, set(tags) | set(classes), steps


def _env_worker(chunk, st: Stats, scratch_root):
    d = os.path.join(scratch_root, "env-w%d" % os.getpid())
    os.makedirs(d, exist_ok=True)
    import logging
    logging.disable(logging.CRITICAL)
    for case in chunk:
        res, tags, steps = check_env(case, d)
        st.add("transitions", steps)
        st.add("validated")
        st.add("env_cases")
        st.distinct("states", case)
        st.distinct("outcomes", ("env",) + tuple(sorted(tags)) + tuple(sorted("FAIL:" + s for s, _ in res)))
        if any(v != "1735689600" for v in case["env"].values()):
            st.add("nontrivial")
        for sig, what in res:
            st.violation(sig, what, case)
    if chunk:
        st.sample(chunk[len(chunk) // 2])
    shutil.rmtree(d, ignore_errors=True)


def enumerate_env(thorough: bool):
    g1 = mk_graph([mk_edge("b", "a", "coact", 7.0, {"coact": 2}, None)], "dict-canon",
                  nodes={"a": {"id": "a", "label": "é", "attrs": {}}})
    subs = [base_case(g1, store=[["node", "a", "weight", 0.1234567891]], agent=ag, shape=shp)
            for ag in ("A", "é") for shp in ("dict", "ns")]
    subs.append({"kind": "auto-marker"})
    cases = []
    for var, vals in ENV_ALPHABET.items():
        for v, _cls in vals:
            for sub in subs:
                cases.append({"kind": "env", "env": {var: v}, "sub": sub})
    return cases


# ----------------------------------------------------------------------------- discovery
class _OsProxy:
    """stands in for the `os` module inside clematis.engine.snapshot: controls directory listing order"""

    def __init__(self, real, order):
        self.__dict__["_real"] = real
        self.__dict__["_order"] = order
        self.__dict__["calls"] = 0

    def __getattr__(self, name):
        return getattr(self._real, name)

    def listdir(self, p="."):
        self.__dict__["calls"] += 1
        return sorted(self._real.listdir(p), reverse=(self._order == "desc"))

    def scandir(self, p="."):
        self.__dict__["calls"] += 1
        return iter(sorted(self._real.scandir(p), key=lambda e: e.name, reverse=(self._order == "desc")))


MEMBERS = ["sidecar", "temp_body", "temp_sidecar", "real_tmp", "zst", "zst_sidecar", "foreign"]


def check_disc(case, d):
    """returns (violations, outcome, transitions, intercepted listdir calls)"""
    out = []
    clean_dir(d)
    ctx = mk_ctx("t4-default", d, "A", 3)
    members = set(case["members"])
    suffix = case.get("suffix", "abcd1234")
    body_kind = case["body"]
    version = case.get("version", "41")
    state = mk_state("dict", _Store({("node", "a", "weight"): 0.5}), version,
                     mk_graph([mk_edge("a", "b", "coact", 0.5, {}, None)], "dict-canon", nodes={}))
    legacy = snap.write_snapshot(ctx, state, version, applied=1)
    with open(legacy, "rb") as f:
        body_bytes = f.read()
    payload = json.loads(body_bytes.decode("utf-8"))
    steps = 1
    if body_kind in ("pr34", "pr34h"):
        os.unlink(legacy)
        os.unlink(legacy + ".meta")
        if body_kind == "pr34h":
            # the version travels in the PR34 header (etag_to) only
            payload = {k: v for k, v in payload.items() if k != "version_etag"}
        try:
            body, _ = snap.write_snapshot_auto(d, etag_from=None, etag_to=version, payload=payload, delta_mode=False)
            if not (isinstance(body, str) and os.path.isfile(body)):
                raise FileNotFoundError("write_snapshot_auto returned %r" % (body,))
        except Exception as e:
            return ([(vsig("discovery:pr34-writer-fails:" + type(e).__name__, version),
                      "write_snapshot_auto(full, etag_to=%r) raised / wrote nothing: %r" % (version, e))], (body_kind, "writer-fails"), steps, 0)
        steps += 1
        out += check_marker(body, None, "write_snapshot_auto(full)", body_must=False)
    else:
        body = legacy
        out += check_marker(body, payload, "write_snapshot")
    base = os.path.basename(body)
    sidecars, temps, others = set(), set(), set()
    if "sidecar" in members:
        sidecars.add(base + ".meta")
    else:
        try:
            os.unlink(body + ".meta")
        except FileNotFoundError:
            pass
    if "temp_body" in members:
        n = base + "." + suffix
        with open(os.path.join(d, n), "wb") as f:
            f.write(body_bytes[: len(body_bytes) // 2])
        temps.add(n)
    if "temp_sidecar" in members:
        n = base + ".meta." + suffix
        with open(os.path.join(d, n), "wb") as f:
            f.write(b'{"schema_version": "v1", "crea')
        temps.add(n)
    if "real_tmp" in members:
        # what the real atomic writer leaves behind when it is killed before the rename
        tp = atomic_mod._make_tmp(Path(body))
        with open(tp, "wb") as f:
            f.write(body_bytes)              # complete content: only the name tells it apart
        temps.add(os.path.basename(str(tp)))
    if "zst" in members:
        with open(os.path.join(d, "snapshot-77.full.json.zst"), "wb") as f:
            f.write(b"\x28\xb5\x2f\xfd garbage")
        others.add("snapshot-77.full.json.zst")
    if "zst_sidecar" in members:
        with open(os.path.join(d, "snapshot-77.full.json.zst.meta"), "wb") as f:
            f.write(b'{"schema_version": "v1", "created_at": "2025-01-01T00:00:00Z"}\n')
        sidecars.add("snapshot-77.full.json.zst.meta")
    if "foreign" in members:
        with open(os.path.join(d, "notes.json"), "wb") as f:
            f.write(b'{"hello": 1}')
        others.add("notes.json")
    if body_kind is None:
        os.unlink(body)
    t_other = 3000 if case["newer"] else 1000
    for n in os.listdir(d):
        t = 2000 if (n == base) else t_other
        os.utime(os.path.join(d, n), (t, t))

    picks = {}
    calls = 0
    for order in ("asc", "desc"):
        proxy = _OsProxy(os, order)
        real_os = snap.os
        snap.os = proxy
        try:
            pk = None
            picker = getattr(snap, "_pick_latest_snapshot_path", None)
            if callable(picker):
                pk = picker(d)
                steps += 1
            sN = mk_state("dict", _Store(), None, None)
            try:
                info = snap.load_latest_snapshot(ctx, sN)
                steps += 1
            except Exception as e:
                out.append(("discovery:load-raises:" + type(e).__name__, "load_latest_snapshot raised %r with directory %s" % (e, sorted(os.listdir(d)))))
                info = {"loaded": False, "path": None}
        finally:
            snap.os = real_os
        calls += proxy.calls
        listing = sorted(os.listdir(d))
        for label, p in (("picker", pk), ("loader", info.get("path") if isinstance(info, dict) else None)):
            if not callable(getattr(snap, "_pick_latest_snapshot_path", None)) and label == "picker":
                continue
            n = os.path.basename(p) if p else None
            if n in sidecars:
                out.append(("discovery:picked-sidecar", "%s returned sidecar %r from %s (order %s)" % (label, n, listing, order)))
            elif n in temps:
                out.append(("discovery:picked-temp", "%s returned temp file %r from %s (order %s)" % (label, n, listing, order)))
            elif body_kind is not None and n != base:
                # documented tier order: state_*.json outranks other json; a PR34 body competes with foreign json by mtime
                if body_kind == "legacy" or "foreign" not in members:
                    out.append(("discovery:missed-body", "%s returned %r, the only snapshot body is %r in %s (order %s)" % (label, n, base, listing, order)))
            elif body_kind is None and n is not None and n not in others:
                out.append(("discovery:picked-nonexistent", "%s returned %r from %s" % (label, n, listing)))
        n_l = os.path.basename(info["path"]) if isinstance(info, dict) and info.get("path") else None
        if body_kind is not None and n_l == base:
            if not info.get("loaded") or sget(sN, "version_etag") != version or not deq(sget(sN, "store").w, {("node", "a", "weight"): 0.5}):
                out.append((vsig("discovery:body-not-restored", version), "loader read %r but restored version %r / store %s" % (
                    n_l, sget(sN, "version_etag"), J(w_as_list(sget(sN, "store").w)))))
        if body_kind is None and "foreign" not in members and isinstance(info, dict) and info.get("loaded"):
            out.append(("discovery:loaded-without-body", "loaded=True from a directory without any snapshot body: %s" % listing))
        picks[order] = (os.path.basename(pk) if pk else None, n_l)
    if picks["asc"] != picks["desc"]:
        out.append(("discovery:listdir-order-dependent", "asc listing -> %r, desc listing -> %r in %s" % (picks["asc"], picks["desc"], sorted(os.listdir(d)))))
    cls = lambda n: None if n is None else ("body" if n == base and body_kind else "sidecar" if n in sidecars else "temp" if n in temps else "other")
    oc = (body_kind, cls(picks["asc"][1]))
    res = _unversion(dedupe(out), case, lambda c: check_disc(c, d)[0])
    return res, oc, steps, calls


def _disc_worker(chunk, st: Stats, scratch_root):
    d = os.path.join(scratch_root, "disc-w%d" % os.getpid())
    os.makedirs(d, exist_ok=True)
    import logging
    logging.disable(logging.CRITICAL)
    import contextlib, io
    for case in chunk:
        with contextlib.redirect_stderr(io.StringIO()):
            res, oc, steps, calls = check_disc(case, d)
        st.add("transitions", steps)
        st.add("validated")
        st.add("disc_cases")
        st.add("listdir_intercepted", calls)
        st.distinct("states", case)
        st.distinct("outcomes", ("disc",) + oc + tuple(sorted("FAIL:" + s for s, _ in res)))
        if case["members"]:
            st.add("nontrivial")
        for sig, what in res:
            st.violation(sig, what, case)
    if chunk:
        st.sample(chunk[0])
    shutil.rmtree(d, ignore_errors=True)


def enumerate_disc(thorough: bool):
    cases = []
    suffixes = ["abcd1234", "tmp_json", "_0000000"] if thorough else ["abcd1234"]
    for body in ("legacy", "pr34", None):
        for k in range(len(MEMBERS) + 1):
            for sub in itertools.combinations(MEMBERS, k):
                for newer in (False, True):
                    for sfx in (suffixes if ("temp_body" in sub or "temp_sidecar" in sub) else suffixes[:1]):
                        cases.append({"kind": "disc", "body": body, "members": list(sub), "newer": newer, "suffix": sfx})
    # the version value as a dimension of the alternative writers: legacy body, PR34 body with the version in the
    # payload, PR34 body with the version in the header only (the loader's documented fall-back to etag_to)
    for body in ("legacy", "pr34", "pr34h"):
        for ver in ["41"] + version_alphabet(thorough):
            if body != "pr34h" and ver == "41":
                continue        # enumerated above
            if body != "legacy" and (len(ver.encode("utf-8")) > 100 or "/" in ver or "\0" in ver):
                continue        # the PR34 writer puts the version into the file NAME: not a usable name component
            for sub in ([], ["sidecar"], ["sidecar", "foreign"]):
                cases.append({"kind": "disc", "body": body, "members": list(sub), "newer": False, "suffix": suffixes[0], "version": ver})
    return cases


# ----------------------------------------------------------------------------- write histories in one directory
# "Loading the LATEST snapshot restores what was written": the rt leg keeps one body per directory, so which body
# is the latest never matters there.  This leg enumerates histories of writes by several agents into ONE snapshot
# directory (first writes, re-writes with changed content, re-writes with identical content, bodies of equal and
# of different length) and loads after every write: the state restored must be the one written LAST.
HIST_STATES = {
    # s0 / s1 differ in single digits only: their bodies have the same length for the same agent
    "s0": {"version": "41", "store": [["node", "a", "weight", 0.5]],
           "graph": {"nodes": {}, "edges": {"a→b": {"id": "a→b", "src": "a", "dst": "b", "rel": "coact", "weight": 0.5,
                                                      "attrs": {"coact": 1}, "updated_at": None}}}},
    "s1": {"version": "42", "store": [["node", "a", "weight", 0.7]],
           "graph": {"nodes": {}, "edges": {"a→b": {"id": "a→b", "src": "a", "dst": "b", "rel": "coact", "weight": 0.7,
                                                      "attrs": {"coact": 1}, "updated_at": None}}}},
    # s2: other ids, a node, two store entries (longer body).  All three graphs are already in sanitised form:
    # what the write-side sanitisation does to a graph is the rt leg's subject, not this one's.
    "s2": {"version": "7", "store": [["node", "é", "weight", -0.25], ["edge", "x", "w", 0.125]],
           "graph": {"nodes": {"x": {"id": "x", "label": "é", "attrs": {}}},
                     "edges": {"x→é": {"id": "x→é", "src": "x", "dst": "é", "rel": "concept", "weight": -0.25,
                                       "attrs": {}, "updated_at": "2025-01-01T00:00:00Z"}}}},
}
HIST_T0 = 1000          # logical clock (seconds) for files written by earlier steps of a history
HIST_FRESH = 10 ** 6    # any mtime above this was produced by the real clock
HIST_SUBTICK = 0.125    # sub-second clock step (binary fraction: exact as float and in ns); <= 7 writes stay in one second


def _age_files(d: str, k: int) -> None:
    """time passes between two writes: every file stamped by the real clock so far (i.e. touched by the most
    recent write) is moved to logical second HIST_T0+k; files stamped at earlier steps keep their (smaller)
    logical time, so the relative age order of everything already in the directory is preserved and whatever
    the next write really replaces is strictly the newest file afterwards."""
    for e in os.scandir(d):
        if e.is_file(follow_symlinks=False) and e.stat(follow_symlinks=False).st_mtime > HIST_FRESH:
            os.utime(e.path, (HIST_T0 + k, HIST_T0 + k))


def step_class(ops, i):
    """shape of step i of a history: what the write does to the directory -> (kind, kind:neighbourhood)"""
    ag, sx = ops[i]
    prev = [s for a, s in ops[:i] if a == ag]
    kind = "first-write" if not prev else ("identical-rewrite" if prev[-1] == sx else "changed-rewrite")
    return kind, kind + (":shared-dir" if any(a != ag for a, _ in ops[:i]) else ":own-dir")


def check_hist(case, d):
    """returns (violations, outcome tags, transitions, intercepted listdir calls)"""
    out, tags, steps, calls = [], set(), 0, 0
    clean_dir(d)
    ops = [tuple(o) for o in case["ops"]]
    shape = case.get("shape", "ns")
    bounds = CFGS["t4-default"][2]
    tick = case.get("tick")          # None: one write per logical second; a fraction: all writes inside ONE second
    if tick:
        tags.add("sub-second-clock")
    for i, (ag, sx) in enumerate(ops):
        spec = HIST_STATES[sx]
        kind, cls = step_class(ops, i)   # content failures are classified by kind only, discovery failures by cls
        if tick:
            cls += ":same-second"
        tags.add(cls)
        where = "history %s step %d (%s)" % (J(ops[:i + 1]), i + 1, cls)
        ctx = mk_ctx("t4-default", d, ag, 3)
        store0 = build_w(spec["store"])
        w0 = dict(store0.w)
        s_in = mk_state(shape, store0, spec["version"], json.loads(json.dumps(spec["graph"])))
        _age_files(d, i)
        try:
            p = snap.write_snapshot(ctx, s_in, spec["version"], applied=1, deltas=None)
            steps += 1
            with open(p, "rb") as f:
                doc = json.loads(f.read().decode("utf-8"))
        except Exception as e:
            out.append(("history:write-fails:" + kind, "%s: write_snapshot / reading its body back raised %r" % (where, e)))
            break
        if tick:
            # a clock with sub-second resolution: write i happens at HIST_T0 + (i+1)*tick, all inside second HIST_T0;
            # the mtimes are strictly increasing, so which body is the latest stays well defined
            for n in (p, p + ".meta"):
                if os.path.isfile(n):
                    os.utime(n, (HIST_T0 + (i + 1) * tick, HIST_T0 + (i + 1) * tick))
        gel_w = doc.get("gel") if isinstance(doc, dict) else None
        bad = []
        if not isinstance(gel_w, dict) or doc.get("version_etag") != spec["version"] or ref_check_written(spec["graph"], gel_w, bounds):
            # the file the writer says it wrote does not hold the state it was given
            bad.append(("history:body-mismatch:" + kind, "%s: body %s holds version %r / gel %s, written from version %r / graph %s" % (
                where, os.path.basename(p), doc.get("version_etag") if isinstance(doc, dict) else None, J(gel_w)[:200],
                spec["version"], J(spec["graph"])[:200])))
        bad += check_marker(p, doc, where)
        for order in ("asc", "desc"):
            proxy = _OsProxy(os, order)
            real_os = snap.os
            snap.os = proxy
            sN = mk_state(shape, _Store(), None, None)
            try:
                info = snap.load_latest_snapshot(ctx, sN)
                steps += 1
            except Exception as e:
                bad.append(("history:load-raises:" + type(e).__name__, "%s: load_latest_snapshot raised %r" % (where, e)))
                break
            finally:
                snap.os = real_os
                calls += proxy.calls
            if not isinstance(info, dict):
                bad.append(("history:load-returns-non-dict", "%s: load_latest_snapshot returned %r" % (where, info)))
                break
            lp = info.get("path")
            listing = sorted((n, (os.path.getmtime(os.path.join(d, n)) if tick else int(os.path.getmtime(os.path.join(d, n)) > HIST_FRESH)))
                             for n in os.listdir(d) if n.endswith(".json"))
            if not lp or os.path.abspath(lp) != os.path.abspath(p):
                bad.append(("history:latest-not-picked:" + cls,
                            "%s: the snapshot written last is %r but the loader read %r; bodies (name, replaced by this write) = %s, listing order %s" % (
                                where, os.path.basename(p), os.path.basename(lp) if lp else None, J(listing), order)))
                tags.add("picked-other")
                break
            miss = []
            if not info.get("loaded"):
                miss.append("loaded=%r" % (info.get("loaded"),))
            if sget(sN, "version_etag") != spec["version"]:
                miss.append("version %r != written %r" % (sget(sN, "version_etag"), spec["version"]))
            if not deq(dict(sget(sN, "store").w), w0):
                miss.append("store %s != written %s" % (J(w_as_list(sget(sN, "store").w)), J(w_as_list(w0))))
            if isinstance(gel_w, dict) and not bad:
                miss += [w for _, w in cmp_loaded(sget(sN, "graph"), gel_w, "graph")]
            if miss:
                bad.append(("history:latest-not-restored:" + kind, "%s: %s (listing order %s)" % (where, "; ".join(miss), order)))
                break
        if bad:
            out += bad
            break
    return dedupe(out), tags, steps, calls


def _hist_worker(chunk, st: Stats, scratch_root):
    d = os.path.join(scratch_root, "hist-w%d" % os.getpid())
    os.makedirs(d, exist_ok=True)
    import logging
    logging.disable(logging.CRITICAL)
    for case in chunk:
        res, tags, steps, calls = check_hist(case, d)
        st.add("transitions", steps)
        st.add("validated")
        st.add("hist_cases")
        st.add("listdir_intercepted", calls)
        st.distinct("states", case)
        st.distinct("outcomes", ("hist",) + tuple(sorted(tags)) + tuple(sorted("FAIL:" + s for s, _ in res)))
        if any(t.endswith(":shared-dir") or t.startswith(("identical", "changed")) for t in tags):
            st.add("nontrivial")
        for sig, what in res:
            st.violation(sig, what, case)
    if chunk:
        st.sample(chunk[len(chunk) // 2])
    shutil.rmtree(d, ignore_errors=True)


def hist_alphabet(thorough: bool):
    agents = ["A", "B", "é"] if thorough else ["A", "B"]
    return agents, sorted(HIST_STATES), (4 if thorough else 3)


def enumerate_hist(thorough: bool):
    """all write histories of exactly L steps (every prefix is checked inside the case, so shorter ones are covered)"""
    agents, states, L = hist_alphabet(thorough)
    sym = [(a, s) for a in agents for s in states]
    cases = []
    for ops in itertools.product(sym, repeat=L):
        # the state shape alternates deterministically with the history so both are exercised
        shp = "ns" if (sum(sym.index(o) for o in ops) % 2 == 0) else "dict"
        cases.append({"kind": "hist", "ops": [list(o) for o in ops], "shape": shp})
    # the same histories under a sub-second clock: every write of the history falls into ONE whole second
    # (strictly increasing fractional mtimes, exactly representable) - only where >=2 agents share the directory,
    # a single body has no competitor
    for c in list(cases):
        if len({a for a, _ in c["ops"]}) > 1:
            cases.append(dict(c, tick=HIST_SUBTICK))
    return cases


# ----------------------------------------------------------------------------- numbered snapshots (first discovery tier)
# docs/m8/cli.md + the picker's docstring: "prefers snap_*.json with the highest numeric suffix; else latest
# state_*.json by mtime; else latest *.json by mtime".  The suffix alphabet spans the shapes a counter takes: zero, one
# and two digits unpadded, zero-padded to six, a padded counter that rolls over its width.  Two suffixes with the same
# numeric value ("9" / "000009") TIE: either body is accepted.
NUM_SUFFIXES = ["0", "2", "9", "10", "000009", "000010", "000100", "999999", "1000000"]
NUM_MTIMES = ["agree", "reverse", "equal"]
NUM_NEIGHBOURS = ["state_body", "temp_higher", "sidecar_higher"]


def num_generation(suffix: str):
    """the state archived under snap_<suffix>.json: version, store weights and graph all name the generation"""
    j = NUM_SUFFIXES.index(suffix) if suffix in NUM_SUFFIXES else len(NUM_SUFFIXES)
    w = (j + 1) / 16.0       # dyadic, inside the default bounds, exact at six decimals
    return {"version": "v" + suffix, "store": [["node", "a", "weight", w]],
            "graph": {"nodes": {"a": {"id": "a", "label": "gen-" + suffix, "attrs": {}}},
                      "edges": {"a→b": {"id": "a→b", "src": "a", "dst": "b", "rel": "coact", "weight": w,
                                        "attrs": {"coact": j}, "updated_at": None}}}}


def num_width_class(suffixes) -> str:
    if len(suffixes) == 1:
        return "single"
    return "same-width" if len({len(x) for x in suffixes}) == 1 else "mixed-width"


def _base(p):
    return os.path.basename(p) if isinstance(p, str) and p else None


def check_num(case, d):
    """returns (violations, outcome tags, transitions, intercepted listdir calls)"""
    out, tags, steps, calls = [], set(), 0, 0
    clean_dir(d)
    suffixes = list(case["suffixes"])
    neighbours = set(case.get("neighbours") or [])
    mt = case.get("mtime", "agree")
    shape = case.get("shape", "ns")
    bounds = CFGS["t4-default"][2]
    ctx = mk_ctx("t4-default", d, "A", 3)
    wcls = num_width_class(suffixes)
    tags.add(wcls)
    tags.add("mtime-" + mt)
    gens = {}          # file name -> (spec, body bytes, gel section)
    order = sorted(suffixes, key=lambda x: (int(x), NUM_SUFFIXES.index(x) if x in NUM_SUFFIXES else 0))
    for sfx in order:  # written in counter order
        spec = num_generation(sfx)
        store0 = build_w(spec["store"])
        s_in = mk_state(shape, store0, spec["version"], json.loads(json.dumps(spec["graph"])))
        try:
            p = snap.write_snapshot(ctx, s_in, spec["version"], applied=1, deltas=None)
            steps += 1
            with open(p, "rb") as f:
                b = f.read()
            doc = json.loads(b.decode("utf-8"))
            gel_w = doc.get("gel") if isinstance(doc, dict) else None
        except Exception as e:
            return [("numbered:write-fails", "write_snapshot of generation %r / reading its body back: %r" % (sfx, e))], tags | {"write-fails"}, steps, calls
        if not isinstance(doc, dict) or doc.get("version_etag") != spec["version"] or not isinstance(gel_w, dict) or ref_check_written(spec["graph"], gel_w, bounds):
            # what the write-side does to a state is the rt leg's subject: one signature here, no discovery verdicts on top
            return [("numbered:body-mismatch", "generation %r: body %s does not hold version %r / graph %s it was written from" % (
                sfx, J(doc)[:200], spec["version"], J(spec["graph"])[:200]))], tags | {"body-mismatch"}, steps, calls
        out += check_marker(p, doc, "generation " + sfx)
        name = "snap_%s.json" % sfx
        os.replace(p, os.path.join(d, name))
        if os.path.isfile(p + ".meta"):
            os.replace(p + ".meta", os.path.join(d, name + ".meta"))
        gens[name] = (spec, b, gel_w)
    maxv = max(int(x) for x in suffixes)
    cands = {"snap_%s.json" % x for x in suffixes if int(x) == maxv}
    tie = len(cands) > 1
    if tie:
        tags.add("tie")
    sidecars = {n + ".meta" for n in gens}
    temps, lower = set(), set()
    # mtimes of the numbered bodies (+ their sidecars)
    for r, sfx in enumerate(order):
        t = {"agree": 1000 + r, "reverse": 3000 - r, "equal": 2000}[mt]
        for n in ("snap_%s.json" % sfx, "snap_%s.json.meta" % sfx):
            if os.path.isfile(os.path.join(d, n)):
                os.utime(os.path.join(d, n), (t, t))
    newest_doc = json.loads(gens[sorted(cands)[0]][1].decode("utf-8"))
    if "state_body" in neighbours:
        # a per-agent body written AFTER every numbered one (newest mtime): lower tier, must not win
        sp = num_generation("state")
        try:
            p = snap.write_snapshot(mk_ctx("t4-default", d, "B", 3), mk_state(shape, build_w(sp["store"]), sp["version"], sp["graph"]),
                                    sp["version"], applied=1, deltas=None)
            steps += 1
        except Exception as e:
            return [("numbered:write-fails", "write_snapshot of the neighbour state body: %r" % (e,))], tags | {"write-fails"}, steps, calls
        lower.add(os.path.basename(p))
        sidecars.add(os.path.basename(p) + ".meta")
        for n in (p, p + ".meta"):
            if os.path.isfile(n):
                os.utime(n, (5000, 5000))
    if "temp_higher" in neighbours:
        # what a writer killed before the rename leaves behind: complete content, a higher number, a temp suffix
        n = "snap_%d.json.abcd1234" % (maxv + 1)
        with open(os.path.join(d, n), "wb") as f:
            f.write(json.dumps(dict(newest_doc, version_etag="vtemp")).encode("utf-8"))
        os.utime(os.path.join(d, n), (6000, 6000))
        temps.add(n)
    if "sidecar_higher" in neighbours:
        n = "snap_%d.json.meta" % (maxv + 2)
        with open(os.path.join(d, n), "wb") as f:
            f.write(b'{"schema_version": "v1", "created_at": "2025-01-01T00:00:00Z"}\n')
        os.utime(os.path.join(d, n), (6000, 6000))
        sidecars.add(n)
    listing = sorted(os.listdir(d))
    picks = {}
    loaded_ok = None      # (state, file name) of a load that restored a latest body
    for lorder in ("asc", "desc"):
        proxy = _OsProxy(os, lorder)
        real_os = snap.os
        snap.os = proxy
        got = {}
        sN = mk_state(shape, _Store(), None, None)
        info = None
        try:
            picker = getattr(snap, "_pick_latest_snapshot_path", None)
            if callable(picker):
                try:
                    got["picker"] = picker(d)
                    steps += 1
                except Exception as e:
                    out.append(("numbered:pick-raises:" + type(e).__name__, "_pick_latest_snapshot_path raised %r on %s" % (e, listing)))
            try:
                info = snap.load_latest_snapshot(ctx, sN)
                steps += 1
                got["loader"] = info.get("path") if isinstance(info, dict) else None
            except Exception as e:
                out.append(("numbered:load-raises:" + type(e).__name__, "load_latest_snapshot raised %r on %s" % (e, listing)))
            probe = getattr(snap, "get_latest_snapshot_info", None)
            if callable(probe):
                try:
                    pi = probe(d)
                    steps += 1
                    if isinstance(pi, dict) and pi.get("path"):
                        got["probe"] = pi.get("path")
                except Exception as e:   # documented: never raises
                    out.append(("numbered:probe-raises:" + type(e).__name__, "get_latest_snapshot_info raised %r on %s" % (e, listing)))
        finally:
            snap.os = real_os
            calls += proxy.calls
        for label, pth in sorted(got.items()):
            n = _base(pth)
            where = "%s returned %r from %s (mtimes %s, listing order %s)" % (label, n, listing, mt, lorder)
            if n in cands:
                continue
            if n in sidecars:
                out.append(("numbered:picked-sidecar", where))
            elif n in temps:
                out.append(("numbered:picked-temp", where))
            elif n in lower:
                out.append(("numbered:lower-tier-picked", where + "; numbered bodies outrank state_*.json"))
            else:
                out.append(("numbered:latest-not-picked:" + wcls, where + "; the highest numeric suffix is %d (%s)" % (maxv, sorted(cands))))
                tags.add("picked-other")
        n_l = _base(got.get("loader"))
        if n_l in cands and isinstance(info, dict):
            spec, _b, gel_w = gens[n_l]
            miss = []
            if not info.get("loaded"):
                miss.append("loaded=%r" % (info.get("loaded"),))
            if sget(sN, "version_etag") != spec["version"]:
                miss.append("version %r != written %r" % (sget(sN, "version_etag"), spec["version"]))
            st_l = sget(sN, "store")
            if not deq(dict(getattr(st_l, "w", {}) or {}), dict(build_w(spec["store"]).w)):
                miss.append("store %s != written %s" % (J(w_as_list(getattr(st_l, "w", {}) or {})), J(spec["store"])))
            miss += [w for _, w in cmp_loaded(sget(sN, "graph"), gel_w, "graph")]
            if miss:
                out.append(("numbered:latest-not-restored", "loader read %r from %s: %s" % (n_l, listing, "; ".join(miss))))
            elif loaded_ok is None:
                loaded_ok = (sN, n_l)
        picks[lorder] = tuple(_base(got.get(k)) for k in ("picker", "loader", "probe"))
    if not tie and picks.get("asc") != picks.get("desc"):
        out.append(("numbered:listdir-order-dependent", "asc listing -> %r, desc listing -> %r in %s" % (picks.get("asc"), picks.get("desc"), listing)))
    if loaded_ok is not None:
        # snapshotting the loaded state again reproduces the body it was loaded from
        sN, n_l = loaded_ok
        try:
            p2 = snap.write_snapshot(ctx, sN, sget(sN, "version_etag"), applied=1, deltas=None)
            steps += 1
            with open(p2, "rb") as f:
                b2 = f.read()
            if b2 != gens[n_l][1]:
                try:
                    dp = diffpath(json.loads(gens[n_l][1].decode("utf-8")), json.loads(b2.decode("utf-8")))
                except Exception:
                    dp = ("unparseable",)
                out.append(("numbered:rewrite-differs", "re-snapshot of the state loaded from %r differs from that body at %s" % (
                    n_l, "/".join(map(str, dp or ("bytes",))))))
        except Exception as e:
            out.append(("numbered:rewrite-raises:" + type(e).__name__, "write_snapshot of the state loaded from %r raised %r" % (n_l, e)))
        tags.add("restored")
    return dedupe(out), tags, steps, calls


def _num_worker(chunk, st: Stats, scratch_root):
    d = os.path.join(scratch_root, "num-w%d" % os.getpid())
    os.makedirs(d, exist_ok=True)
    import logging
    logging.disable(logging.CRITICAL)
    import contextlib, io
    for case in chunk:
        with contextlib.redirect_stderr(io.StringIO()):
            res, tags, steps, calls = check_num(case, d)
        st.add("transitions", steps)
        st.add("validated")
        st.add("num_cases")
        st.add("listdir_intercepted", calls)
        st.distinct("states", case)
        st.distinct("outcomes", ("num",) + tuple(sorted(tags)) + tuple(sorted(case.get("neighbours") or [])) + tuple(sorted("FAIL:" + s for s, _ in res)))
        if len(case["suffixes"]) > 1 or case.get("neighbours"):
            st.add("nontrivial")
        for sig, what in res:
            st.violation(sig, what, case)
    if chunk:
        st.sample(chunk[len(chunk) // 2])
    shutil.rmtree(d, ignore_errors=True)


def num_bound(thorough: bool) -> int:
    return 3 if thorough else 2


def enumerate_num(thorough: bool):
    """every set of <= K numbered bodies over NUM_SUFFIXES x mtime relation x subset of neighbours"""
    cases = []
    for k in range(1, num_bound(thorough) + 1):
        for sub in itertools.combinations(NUM_SUFFIXES, k):
            for mt in (NUM_MTIMES if k > 1 else NUM_MTIMES[:1]):
                for j in range(len(NUM_NEIGHBOURS) + 1):
                    for nb in itertools.combinations(NUM_NEIGHBOURS, j):
                        shp = "ns" if ((len(cases)) % 2 == 0) else "dict"
                        cases.append({"kind": "num", "suffixes": list(sub), "mtime": mt, "neighbours": list(nb), "shape": shp})
    return cases


# ----------------------------------------------------------------------------- PR34 writer marker leg
def check_auto_marker(d):
    """write_snapshot_auto full + delta: every file written has a sidecar with the marker.  -> [(sig, writer label, what)]"""
    out = []
    clean_dir(d)
    import contextlib, io
    calls = [
        ("auto-full", dict(etag_from=None, etag_to="1", payload={"version_etag": "1", "store": {}}, delta_mode=False)),
        ("auto-delta", dict(etag_from="1", etag_to="2", payload={"version_etag": "2", "store": {}}, delta_mode=True)),
        ("auto-fallback-full", dict(etag_from="9", etag_to="3", payload={"version_etag": "3"}, delta_mode=True)),
    ]
    for lab, kw in calls:
        try:
            with contextlib.redirect_stderr(io.StringIO()):
                p, was_delta = snap.write_snapshot_auto(d, **kw)
        except Exception as e:
            out.append(("auto:raises:" + type(e).__name__, lab, "write_snapshot_auto(%s) raised %r" % (lab, e)))
            continue
        if lab == "auto-delta" and not was_delta:
            lab = "auto-full"
        out += [(s, lab, w) for s, w in check_marker(p, None, lab, body_must=False)]
    return out


def auto_marker_violations(d):
    """signatures of the stand-alone PR34 marker leg (one per writer entry point)"""
    seen, out = set(), []
    for s, lab, w in check_auto_marker(d):
        if (s, lab) not in seen:
            seen.add((s, lab))
            out.append((s + ":" + lab, w))
    return out


# ----------------------------------------------------------------------------- PR34 full -> delta chains
# "for all write-load-write chains": the PR34 writer (write_snapshot_auto) stores the second snapshot of a chain
# as a DELTA against the first.  The state of every generation is a real write_snapshot body; the alphabet adds
# states whose sub-trees are EMPTY (no edges, no nodes, no store entry) so that every transition
# {populated, empty} -> {populated, empty} of every sub-tree occurs in some ordered pair.
DELTA_STATES = dict(HIST_STATES, **{
    "e0": {"version": "8", "store": [], "graph": {"nodes": {}, "edges": {}}},
    "e1": {"version": "9", "store": [["node", "a", "weight", 0.5]],
           "graph": {"nodes": {"x": {"id": "x", "label": "é", "attrs": {}}}, "edges": {}}},
    "e2": {"version": "10", "store": [],
           "graph": {"nodes": {}, "edges": {"a→b": {"id": "a→b", "src": "a", "dst": "b", "rel": "coact", "weight": 0.5,
                                                      "attrs": {}, "updated_at": None}}}},
})


def check_delta(case, d):
    """returns (violations, outcome tags, transitions, intercepted listdir calls)"""
    out, tags, steps, calls = [], set(), 0, 0
    clean_dir(d)
    shape = case.get("shape", "ns")
    bounds = CFGS["t4-default"][2]
    ctx = mk_ctx("t4-default", d, "A", 3)
    gens = []
    for sx in case["chain"]:
        spec = DELTA_STATES[sx]
        s_in = mk_state(shape, build_w(spec["store"]), spec["version"], json.loads(json.dumps(spec["graph"])))
        try:
            p = snap.write_snapshot(ctx, s_in, spec["version"], applied=1, deltas=None)
            steps += 1
            with open(p, "rb") as f:
                b = f.read()
            doc = json.loads(b.decode("utf-8"))
            os.unlink(p)
            if os.path.isfile(p + ".meta"):
                os.unlink(p + ".meta")
        except Exception as e:
            return [("delta:body-writer-fails:" + type(e).__name__, "write_snapshot of state %s raised %r" % (sx, e))], tags, steps, calls
        gel_w = doc.get("gel") if isinstance(doc, dict) else None
        if not isinstance(gel_w, dict) or ref_check_written(spec["graph"], gel_w, bounds):
            return [("delta:body-mismatch", "write_snapshot body of state %s holds gel %s" % (sx, J(gel_w)[:200]))], tags, steps, calls
        gens.append((sx, spec, b, doc, gel_w))
    prev = None
    last_path = None
    for i, (sx, spec, b, doc, gel_w) in enumerate(gens):
        where = "PR34 chain %s generation %d" % (J(case["chain"]), i + 1)
        try:
            body, was_delta = snap.write_snapshot_auto(d, etag_from=(None if i == 0 else gens[0][1]["version"]), etag_to=spec["version"],
                                                      payload=json.loads(b.decode("utf-8")), delta_mode=(i > 0))
            steps += 1
            if not (isinstance(body, str) and os.path.isfile(body)):
                raise FileNotFoundError("write_snapshot_auto returned %r" % (body,))
        except Exception as e:
            return [("delta:writer-fails:" + type(e).__name__, "%s: write_snapshot_auto raised / wrote nothing: %r" % (where, e))], tags, steps, calls
        tags.add("gen%d-%s" % (i + 1, "delta" if was_delta else "full"))
        out += check_marker(body, None, where, body_must=False)
        for n in (body, body + ".meta"):
            if os.path.isfile(n):
                os.utime(n, (HIST_T0 + i, HIST_T0 + i))
        last_path = body
        if i == 0:
            continue
        for sub in ("store", "gel/nodes", "gel/edges"):
            a0, a1 = _at(gens[0][3], sub.split("/")), _at(doc, sub.split("/"))
            if a0 and not a1:
                tags.add("emptied:" + sub)
        for order in ("asc", "desc"):
            proxy = _OsProxy(os, order)
            real_os = snap.os
            snap.os = proxy
            sN = mk_state(shape, _Store(), None, None)
            try:
                info = snap.load_latest_snapshot(ctx, sN)
                steps += 1
            except Exception as e:
                out.append(("delta:load-raises:" + type(e).__name__, "%s: load_latest_snapshot raised %r" % (where, e)))
                break
            finally:
                snap.os = real_os
                calls += proxy.calls
            lp = info.get("path") if isinstance(info, dict) else None
            if not lp or os.path.abspath(lp) != os.path.abspath(last_path):
                out.append(("delta:latest-not-picked", "%s: the snapshot written last is %r but the loader read %r (listing order %s)" % (
                    where, os.path.basename(last_path), os.path.basename(lp) if lp else None, order)))
                break
            miss = []
            if not info.get("loaded"):
                miss.append("loaded=%r" % (info.get("loaded"),))
            if sget(sN, "version_etag") != spec["version"]:
                miss.append("version %r != written %r" % (sget(sN, "version_etag"), spec["version"]))
            st_l = sget(sN, "store")
            if not deq(dict(getattr(st_l, "w", {}) or {}), dict(build_w(spec["store"]).w)):
                miss.append("store %s != written %s" % (J(w_as_list(getattr(st_l, "w", {}) or {})), J(spec["store"])))
            miss += [w for _, w in cmp_loaded(sget(sN, "graph"), gel_w, "graph")]
            if miss:
                out.append(("delta:latest-not-restored:" + ("delta" if was_delta else "full"),
                            "%s (%s body %s on baseline %s): %s" % (where, "delta" if was_delta else "full", os.path.basename(body),
                                                                    gens[0][0], "; ".join(miss))))
                break
            if order == "asc":
                # snapshotting the loaded state again reproduces the body the generation was written from
                try:
                    p2 = snap.write_snapshot(ctx, sN, sget(sN, "version_etag"), applied=1, deltas=None)
                    steps += 1
                    with open(p2, "rb") as f:
                        b2 = f.read()
                    for n in (p2, p2 + ".meta"):
                        if os.path.isfile(n):
                            os.unlink(n)
                    # the PR34 container stores canonical (key-sorted) JSON, so the insertion order of object keys
                    # cannot survive it: the two bodies are compared as canonical JSON, not as raw bytes
                    try:
                        same = (json.dumps(json.loads(b2.decode("utf-8")), sort_keys=True, ensure_ascii=False) ==
                                json.dumps(json.loads(b.decode("utf-8")), sort_keys=True, ensure_ascii=False))
                    except Exception:
                        same = False
                    if not same:
                        try:
                            dp = diffpath(json.loads(b.decode("utf-8")), json.loads(b2.decode("utf-8")))
                        except Exception:
                            dp = ("unparseable",)
                        out.append(("delta:rewrite-differs", "%s: re-snapshot of the loaded state differs from the written body at %s" % (
                            where, "/".join(map(str, dp or ("bytes",))))))
                        break
                except Exception as e:
                    out.append(("delta:rewrite-raises:" + type(e).__name__, "%s: write_snapshot of the loaded state raised %r" % (where, e)))
                    break
        if out:
            break
    return dedupe(out), tags, steps, calls


def _delta_worker(chunk, st: Stats, scratch_root):
    d = os.path.join(scratch_root, "delta-w%d" % os.getpid())
    os.makedirs(d, exist_ok=True)
    import logging
    logging.disable(logging.CRITICAL)
    import contextlib, io
    for case in chunk:
        with contextlib.redirect_stderr(io.StringIO()):
            res, tags, steps, calls = check_delta(case, d)
        st.add("transitions", steps)
        st.add("validated")
        st.add("delta_cases")
        st.add("listdir_intercepted", calls)
        st.distinct("states", case)
        st.distinct("outcomes", ("delta",) + tuple(sorted(tags)) + tuple(sorted("FAIL:" + s for s, _ in res)))
        if any(t.startswith("emptied:") for t in tags):
            st.add("nontrivial")
        for sig, what in res:
            st.violation(sig, what, case)
    if chunk:
        st.sample(chunk[len(chunk) // 2])
    shutil.rmtree(d, ignore_errors=True)


def delta_bound(thorough: bool) -> int:
    return 3 if thorough else 2


def enumerate_delta(thorough: bool):
    """every chain of 2 (thorough: also 3) generations with pairwise distinct versions over DELTA_STATES: generation 1 is
    written full, every later one as a delta against generation 1"""
    cases = []
    for L in range(2, delta_bound(thorough) + 1):
        for chain in itertools.permutations(sorted(DELTA_STATES), L):
            shp = "ns" if (len(cases) % 2 == 0) else "dict"
            cases.append({"kind": "delta", "chain": list(chain), "shape": shp})
    return cases


# ----------------------------------------------------------------------------- entry points
def run(run: Run) -> None:
    if not hasattr(snap, "os"):
        raise HarnessError("seam missing: clematis.engine.snapshot.os (directory listing order)")
    cases, skipped = enumerate_rt(run.thorough)
    lcases = enumerate_live(run.thorough)
    ecases = enumerate_env(run.thorough)
    dcases = enumerate_disc(run.thorough)
    run.notes["rt_cases_enumerated"] = len(cases)
    run.notes["live_cases_enumerated"] = len(lcases)
    run.notes["live_bound"] = {"mirrors": MIRRORS, "gel_ops": GEL_OPS, "max_ops_per_history": live_bound(run.thorough),
                               "cfgs": sorted(LIVE_CFGS)}
    run.notes["env_cases_enumerated"] = len(ecases)
    run.notes["env_alphabet"] = {k: [v for v, _ in vals] for k, vals in ENV_ALPHABET.items()}
    hcases = enumerate_hist(run.thorough)
    h_agents, h_states, h_len = hist_alphabet(run.thorough)
    run.notes["disc_cases_enumerated"] = len(dcases)
    run.notes["hist_cases_enumerated"] = len(hcases)
    run.notes["hist_bound"] = {"agents": h_agents, "states": h_states, "writes_per_history": h_len}
    run.notes["unrepresentable_dict_combos_skipped"] = skipped
    ncases = enumerate_num(run.thorough)
    run.notes["num_cases_enumerated"] = len(ncases)
    run.notes["num_bound"] = {"suffixes": NUM_SUFFIXES, "max_bodies_per_directory": num_bound(run.thorough),
                              "mtimes": NUM_MTIMES, "neighbours": NUM_NEIGHBOURS}
    xcases = enumerate_delta(run.thorough)
    run.notes["delta_cases_enumerated"] = len(xcases)
    run.notes["delta_bound"] = {"states": sorted(DELTA_STATES), "generations_per_chain": delta_bound(run.thorough)}
    run.notes["hist_subsecond_tick"] = HIST_SUBTICK
    run.notes["version_alphabet"] = ["41", "0"] + version_alphabet(run.thorough)
    run.rule = (
        "rt: product families F1 one edge (src,dst in {a,b,'é→x',''}^2 x rel x 9 weights x 4 edge-container styles x 7 bounds cfgs"
        "%s), F2 ordered pairs and F3 ordered triples of edges over sub-alphabets (list + canonical-dict containers), "
        "F4 store maps (<=2 entries, both insertion orders) x versions {'0','41'} x agents {A,'é'} x state shape {dict,namespace} x "
        "{graph,gel} field, F5 meta lists/counter well- and ill-shaped, F6 node containers (dict over all id subsets, list over all "
        "ordered id subsets); each case runs write->load->write->load->write on the real code; "
        "non-trivial = the write-side sanitisation has something to do (non-finite / out-of-range / >6-decimal weight, reversed "
        "orientation, list-shaped container, collapsing duplicates) or the store holds a non-finite weight. "
        "disc: {legacy body, PR34 full body, no body} x every subset of %d neighbour kinds x {older,newer} mtime, both listdir orders "
        "inside each case. "
        "hist: every sequence of exactly %d writes over (agent in %s) x (state in %s: two states whose bodies have equal length, "
        "one longer) into one shared snapshot directory - covers first writes, re-writes with changed and with byte-identical "
        "content, alone and next to other agents' bodies; after EVERY write a fresh state is loaded (both listdir orders) and must "
        "get the state written last; non-trivial = a step re-writes an existing body or writes next to another agent's body. "
        "live: the rt chain on states laid out and evolved by the engine: initial graph in {absent, empty, one edge} x `gel` "
        "mirror layout in %s (same object / dict() copy / deep copy / separately built empty graph / stale other graph) x "
        "every sequence of <=%d real GEL operations %s executed on the state before the write x state shape x %d GEL-enabled "
        "cfgs, restricted to states whose live state.graph holds >=1 edge at write time; reference input = state.graph at "
        "write time; non-trivial = the operations changed the graph or the mirror is a distinct object. "
        "env: {4 rt cases, PR34 full+delta+fallback writers} x every value of SOURCE_DATE_EPOCH in %s (None = unset), set in "
        "the process environment for the whole chain; non-trivial = any value other than the pinned one. "
        "ver: the version string ranges over %s (empty, blank, number / literal look-alikes, unicode) in rt family F7 "
        "(x agent {A,'é'} x state shape x {store only, graph only, both}) and in disc for the bodies {legacy, PR34 with the version "
        "in the payload, PR34 with the version in the header etag_to only} x neighbours {none, sidecar, sidecar+foreign json}. "
        "num: every set of <=%d numbered bodies snap_<N>.json with N in %s (each the real write_snapshot product of its own "
        "generation, archived under the numbered name with its sidecar) x mtimes %s relative to the numeric order x every subset of "
        "neighbours %s (a newer state_*.json body; a complete temp file and a bare sidecar named with a higher number), both listdir "
        "orders; picker, loader and get_latest_snapshot_info must return a body of the highest numeric suffix (equal values in "
        "different paddings tie: either), the loaded state must be that generation and re-snapshot to the same bytes; non-trivial = "
        ">=2 numbered bodies or a neighbour. "
        "hist-subsecond: every hist history that involves >=2 agents is run a second time under a sub-second clock (write i stamped "
        "HIST_T0+(i+1)*%s s: strictly increasing mtimes inside ONE whole second). "
        "delta: every chain of 2..%d generations with pairwise distinct versions over the states %s (populated and EMPTY store / "
        "gel.nodes / gel.edges sub-trees, so each sub-tree goes populated->empty, empty->populated, changes and stays in some chain); "
        "generation 1 is written by write_snapshot_auto as a full PR34 snapshot, every later one with delta_mode=True against "
        "generation 1, payload = the real write_snapshot body of that state; after every later generation the latest snapshot is "
        "loaded (both listdir orders) and must restore that generation's version / store / graph, and re-snapshot to its body "
        "(compared as canonical JSON); non-trivial = a sub-tree of the body became empty."
        % (" x 3 attrs x 3 updated_at under 2 of the cfgs" if run.thorough else "", len(MEMBERS), h_len, h_agents, h_states,
           MIRRORS, live_bound(run.thorough), GEL_OPS, len(LIVE_CFGS), [v for v, _ in ENV_ALPHABET["SOURCE_DATE_EPOCH"]],
           version_alphabet(run.thorough) if not run.thorough else VERSIONS_B + [v[:12] for v in VERSIONS_B_DEEP],
           num_bound(run.thorough), NUM_SUFFIXES, NUM_MTIMES, NUM_NEIGHBOURS,
           HIST_SUBTICK, delta_bound(run.thorough), sorted(DELTA_STATES)))
    run.pmap(_rt_worker, cases + lcases, extra=(run.scratch,))
    run.pmap(_env_worker, ecases, extra=(run.scratch,))
    run.pmap(_disc_worker, dcases, extra=(run.scratch,))
    run.pmap(_hist_worker, hcases, extra=(run.scratch,))
    run.pmap(_num_worker, ncases, extra=(run.scratch,))
    run.pmap(_delta_worker, xcases, extra=(run.scratch,))
    if run.n.get("listdir_intercepted", 0) == 0:
        raise HarnessError("seam missing: snapshot discovery no longer lists the directory through snapshot.os.listdir/scandir")
    d = os.path.join(run.scratch, "auto")
    for sig, what in auto_marker_violations(d):
        run.violation(sig, what, {"kind": "auto-marker"})
    run.add("transitions", 3)
    run.add("validated")
    shutil.rmtree(d, ignore_errors=True)
    run.assume("same ctx (bounds, snapshot_dir, agent, turn) and same applied/deltas arguments for every write and load of a chain")
    run.assume("store is the `.w` weight-map shape with (kind,id,attr) string keys and float-able values; stores exposing export_state/import_state are not enumerated")
    run.assume("graph.meta is a dict or absent (a non-dict meta is not a state the engine produces); ill-shaped meta FIELDS are only required to round-trip consistently, not to be preserved")
    run.assume("states with two edges on one unordered pair (not representable in the runtime GEL dict) are only required to be written as one of the two and to round-trip consistently")
    run.assume("graph.decay.epsilon_prune left at its default 0 (the property statement does not mention pruning)")
    run.assume("inverted bounds (min>=max): clamp range unspecified, only rounding + load==written + fixpoint are checked")
    run.assume("rounding: any six-decimal value within 0.5e-6 of the clamped input is accepted (ties may go either way); NaN may map to any in-bounds value")
    run.assume("zstandard not installed: *.json.zst appears only as an unreadable neighbour file")
    run.assume("hist: time passes between two writes of a history (harness-owned clock: before each write every file stamped by the "
               "real clock is moved to the next logical second, preserving the age order of the files already present); in the "
               "sub-second variant every written body is stamped HIST_T0+(i+1)*tick instead, i.e. a filesystem with sub-second mtime "
               "resolution is assumed (as on the scratch tmpfs); two writes with EQUAL mtimes are not enumerated, and the loading ctx "
               "is always the agent that wrote last")
    run.assume("delta: whether write_snapshot_auto(delta_mode=True) really emits a delta or falls back to a full body is not judged "
               "(only recorded in the outcome); generation i is stamped logical second HIST_T0+i so the last written file is the "
               "latest; one agent / turn / applied for the whole chain; deltas always refer to generation 1 (delta-of-delta is not a "
               "documented mode); the PR34 container canonicalises object key order, so the re-snapshot of a state loaded from it is "
               "compared with the written body as key-sorted JSON (value-exact), not as raw bytes")
    run.assume("versions are strings (write_snapshot's declared type); a non-string version (int 0, None) is not enumerated: the loader "
               "documents that it restores str(version), so such a value cannot round-trip byte for byte by design.  F7 always writes "
               "a store entry or a graph edge next to the version (whether a body holding neither counts as 'loaded' is not judged); "
               "PR34 bodies only take versions usable as a file-name component")
    run.assume("num: 'latest' among numbered snapshots is the documented one (docs/m8/cli.md, picker docstring): highest numeric "
               "suffix, whatever the mtimes; numbered bodies outrank state_*.json; names snap_<non-digits>.json are not enumerated "
               "(unspecified); suffixes of equal numeric value tie (either accepted, no listdir-order clause); the loading ctx is the "
               "agent / turn / applied the generations were written with, so the re-snapshot must equal the archived body")
    run.assume("SOURCE_DATE_EPOCH pinned (1735689600) in every leg but env; in the env leg the sidecar may read the wall clock "
               "(unset / unusable value) - only its schema marker is judged, never created_at; one snapshot directory per execution")
    run.assume("live: 'the GEL graph that was written' is state.graph (docs/m11/overview.md: snapshots include state.graph.*; "
               "gel.py: only state.graph is mutated); a `gel` field is a compatibility mirror and is judged only while "
               "state.graph holds at least one edge (with an empty / absent state.graph the writer's fallback to `gel` is not judged)")
    run.assume("live: GEL operations run with graph.enabled=true and otherwise default graph.* settings, fixed retrieval lists "
               "over ids {a, b, 'ç'}; a GEL operation that raises is reported (live:gel-op-raises) rather than skipped")
    run.assume("env: a writer that raises under a SOURCE_DATE_EPOCH that is not a usable integer (empty, date string, fractional, "
               "beyond the platform time range) has refused to write and is not judged; under unset / integer values a raise is a violation")


def replay(case):
    import tempfile
    import logging
    logging.disable(logging.CRITICAL)
    d = tempfile.mkdtemp(prefix="c06r", dir="/dev/shm" if os.path.isdir("/dev/shm") else None)
    try:
        if case.get("kind") == "rt":
            return finalize_rt(case, check_rt(case, d)[0], d)
        if case.get("kind") == "disc":
            return check_disc(case, d)[0]
        if case.get("kind") == "hist":
            return check_hist(case, d)[0]
        if case.get("kind") == "num":
            return check_num(case, d)[0]
        if case.get("kind") == "delta":
            return check_delta(case, d)[0]
        if case.get("kind") == "auto-marker":
            return auto_marker_violations(d)
        if case.get("kind") == "env":
            return check_env(case, d)[0]
        raise HarnessError("unknown case kind %r" % case.get("kind"))
    finally:
        shutil.rmtree(d, ignore_errors=True)
