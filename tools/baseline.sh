#!/bin/bash
# Runs the repository's pinned test suite (the command from /root/.vp/BASELINE.json) in DIR (default /repo)
# with the verification guard OFF, then restores the tracked log/snapshot files the suite rewrites and removes
# the untracked snapshot/log files it leaves under .data/.logs.
DIR="${1:-/repo}"
unset CLEMATIS3_VERIF
cd "$DIR" || exit 2
/venv/bin/python -m pytest -ra -q -p no:cacheprovider --timeout=900 --continue-on-collection-errors ${JUNIT:+--junitxml=$JUNIT}
rc=$?
git checkout -- .logs .data man 2>/dev/null
git clean -fdq -- .data .logs 2>/dev/null
exit $rc
