#!/usr/bin/env python3
"""Regenerates /verif/MANIFEST.json from tools/checks/<Cxx>.json (one file per claimed property) and
tools/not_applicable.json (optional: {Cxx: reason})."""
import glob
import json
import os

VERIF = os.path.dirname(os.path.dirname(os.path.abspath(__file__)))
ALL = ["C%02d" % i for i in range(1, 21)]
ENGINES = {
    "E1 history explorer": ("/verif/mc/explore.py", "explicit-state exploration (BFS to closure / to a depth) of operation histories of the real objects with canonical-state hashing; differential twin executions"),
    "E2 small-scope enumerator": ("/verif/mc/runner.py", "complete enumeration of bounded input / configuration spaces (k-deviation products) against reference models and envelope invariants"),
    "E3 schedule explorer": ("/verif/mc/sched.py", "stateless deviation-bounded exploration of thread interleavings (baton scheduler) and of every feasible completion order of a real thread pool (mc/pool_orders.py)"),
    "E4 fault/crash enumerator": ("/verif/mc/faults.py", "call-numbering proxies inside the target module; every I/O boundary as kill point / failing call / short write, singly and in pairs; every declared fail-soft site x exception type"),
    "E5 environment-answer enumerator": ("/verif/props/c01_repro.py", "every combination of hash seed (one process each) x clock profile x wall date x fresh/warm process"),
}
NOT_YET = "check not built yet (planned, see DESIGN.md section 3)"


def main():
    checks = []
    table = {}
    for f in sorted(glob.glob(os.path.join(VERIF, "tools", "checks", "C*.json"))):
        table[os.path.basename(f)[:-5]] = json.load(open(f))
    na = {}
    nap = os.path.join(VERIF, "tools", "not_applicable.json")
    if os.path.exists(nap):
        na = json.load(open(nap))
    for pid in ALL:
        if pid not in table:
            continue
        e = table[pid]
        checks.append({
            "property_id": pid,
            "quick_cmd": "./check %s quick" % pid,
            "thorough_cmd": "./check %s thorough" % pid,
            "evidence_file": "/verif/evidence/%s.json" % pid,
            "replay_cmd_template": "./check %s --replay {path}" % pid,
            "engine": e["engine"],
            "level_claimed": {"category": "model_checking", "text": e["text"], "design_ref": e.get("design_ref", "DESIGN.md section 3 / %s" % pid)},
            "level_note": e["note"],
            "technique": e["technique"],
        })
    engines = []
    for name, (path, kind) in ENGINES.items():
        engines.append({"name": name, "path": path, "kind_free_text": kind,
                        "serves_properties": [p for p in ALL if p in table and table[p]["engine"] == name]})
    man = {
        "version": 1,
        "setup_cmd": "true",
        "hooks": {
            "guard": "CLEMATIS3_VERIF",
            "enable": "no source hooks: checks run /repo's working tree in a fresh /venv/bin/python with PYTHONPATH=/repo:/verif and replace module attributes (seams) at run time",
            "baseline_off_cmd": "/verif/tools/baseline.sh /repo",
            "source_commits": [],
            "add_only": True,
        },
        "engines": engines,
        "checks": checks,
        "not_applicable": [{"property_id": p, "reason": na.get(p, NOT_YET)} for p in ALL if p not in table],
        "notes": "All checks decide their property by exhaustive bounded exploration of the real Python implementation (see DESIGN.md). known_findings.json lists genuine defects (fixed / known).",
    }
    with open(os.path.join(VERIF, "MANIFEST.json"), "w") as f:
        json.dump(man, f, indent=1)
        f.write("\n")


if __name__ == "__main__":
    main()
