#!/usr/bin/env python3
"""Regenerates /verif/MANIFEST.json from the table below (one entry per claimed property)."""
import json
import os

VERIF = os.path.dirname(os.path.dirname(os.path.abspath(__file__)))

ALL = ["C%02d" % i for i in range(1, 21)]

# id -> (engine, technique, level text, level note, design ref)
CHECKS = {
    "C07": ("E2 small-scope enumerator",
            "exhaustive enumeration of all ordered pairs of a bounded JSON-object universe + every reader x baseline-condition combination on the real codec/files",
            "Every ordered pair (base, cur) of a closed universe of JSON objects (<=2 top-level keys from an alphabet with dotted, empty, unicode and reserved-looking keys; scalar values that are ==-equal but JSON-distinct; nested dicts; lists) is pushed through the real compute_delta/apply_delta and compared JSON-strictly; then every snapshot-shaped pair x {baseline present, missing, garbage, empty, truncated, other etag only} x {read_snapshot(root,etag), read_snapshot(path), load_latest_snapshot} is executed on real files. Exhaustive inside the bound, no sampling.",
            "Bound: universe of ~1e3 (quick) / ~6e3 (thorough) objects, two nesting levels; codec 'none' only (zstandard absent); 'corrupt' = unparseable bytes.",
            "DESIGN.md section 3 / C07"),
}

NOT_YET = "check not built yet in this round (planned, see DESIGN.md section 3)"


def main():
    checks = []
    for pid in ALL:
        if pid not in CHECKS:
            continue
        engine, tech, text, note, ref = CHECKS[pid]
        checks.append({
            "property_id": pid,
            "quick_cmd": "./check %s quick" % pid,
            "thorough_cmd": "./check %s thorough" % pid,
            "evidence_file": "/verif/evidence/%s.json" % pid,
            "replay_cmd_template": "./check %s --replay {path}" % pid,
            "engine": engine,
            "level_claimed": {"category": "model_checking", "text": text, "design_ref": ref},
            "level_note": note,
            "technique": tech,
        })
    man = {
        "version": 1,
        "setup_cmd": "true",
        "hooks": {
            "guard": "CLEMATIS3_VERIF",
            "enable": "no source hooks: checks run /repo's working tree in a fresh /venv/bin/python with PYTHONPATH=/repo:/verif and replace module attributes (seams) at run time",
            "baseline_off_cmd": "/verif/tools/baseline.sh /repo",
            "source_commits": [],
            "add_only": True,
        },
        "engines": [
            {"name": "E1 history explorer", "path": "/verif/mc/explore.py", "kind_free_text": "explicit-state BFS over operation histories of the real objects with canonical-state hashing", "serves_properties": []},
            {"name": "E2 small-scope enumerator", "path": "/verif/mc/runner.py", "kind_free_text": "complete enumeration of bounded input/configuration spaces against reference models", "serves_properties": [p for p in CHECKS if CHECKS[p][0].startswith("E2")]},
        ],
        "checks": checks,
        "not_applicable": [{"property_id": p, "reason": NOT_YET} for p in ALL if p not in CHECKS],
        "notes": "All checks decide their property by exhaustive bounded exploration of the real Python implementation (see DESIGN.md). known_findings.json lists genuine defects (fixed / known).",
    }
    with open(os.path.join(VERIF, "MANIFEST.json"), "w") as f:
        json.dump(man, f, indent=1)
        f.write("\n")


if __name__ == "__main__":
    main()
