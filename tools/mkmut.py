#!/usr/bin/env python3
"""mkmut.py <out.diff> <repo-relative-file> <<< 'OLD\n=====\nNEW'   — builds a unified diff by exact string replacement."""
import sys, difflib, os
out, rel = sys.argv[1], sys.argv[2]
repo = os.environ.get("VERIF_REPO", "/repo")
old, new = sys.stdin.read().split("\n=====\n")
new = new.rstrip("\n") if not old.endswith("\n") else new
src = open(os.path.join(repo, rel)).read()
if src.count(old) != 1:
    sys.exit("pattern occurs %d times in %s" % (src.count(old), rel))
dst = src.replace(old, new)
d = difflib.unified_diff(src.splitlines(True), dst.splitlines(True), "a/" + rel, "b/" + rel)
mode = "a" if os.path.exists(out) and os.environ.get("APPEND") else "w"
open(out, mode).write("".join(d))
print("wrote", out)
