#!/usr/bin/env python3
"""Apply each /verif/mutants/<Cxx>/*.diff (or /verif/seeded/<id>/patch.diff) to a scratch copy of /repo,
optionally run the repo's pinned test suite there, run the property's check against the copy and report.

    tools/run_mutants.py C04 [--tier quick] [--tests] [--only name] [--jobs 4]
    tools/run_mutants.py --seeded [id ...] [--tests]

Exit 0 always; prints one line per mutant:  <prop> <name> tests=<pass|fail|skipped> check=<DETECTED|MISSED|ERROR> sigs=[...]
Scratch copies live under /dev/shm and are removed afterwards.  Replay files written by mutant runs are
redirected away from /verif/replays (VERIF_REPLAY_DIR).
"""
import argparse
import concurrent.futures as cf
import glob
import json
import os
import re
import shutil
import subprocess
import sys
import tempfile

VERIF = os.path.dirname(os.path.dirname(os.path.abspath(__file__)))
REPO = "/repo"
EXCL = [".git", "dist_local", "dist.1", "dist.2", "frontend", "docs", "_release", "packaging", "Formula", "examples"]


def make_copy(tag, full=False):
    d = tempfile.mkdtemp(prefix="mut-%s-" % tag, dir="/dev/shm")
    cmd = ["rsync", "-a"]
    for e in ([".git"] if full else EXCL):
        cmd += ["--exclude", e]
    cmd += [REPO + "/", d + "/"]
    subprocess.run(cmd, check=True)
    return d


def run_one(prop, name, diff, tier, tests):
    d = make_copy(prop + "-" + re.sub(r"\W+", "_", name)[:30], full=tests)
    rep = tempfile.mkdtemp(prefix="mutrep-", dir="/dev/shm")
    try:
        p = subprocess.run(["patch", "-p1", "-d", d, "-i", diff, "--no-backup-if-mismatch", "-s"], capture_output=True, text=True)
        if p.returncode != 0:
            return prop, name, "n/a", "PATCH-FAILED", [p.stdout.strip()[:200]]
        tres = "skipped"
        if tests:
            t = subprocess.run(["/venv/bin/python", "-m", "pytest", "-q", "-p", "no:cacheprovider", "--timeout=900", "-x", "-q"],
                               cwd=d, capture_output=True, text=True, env={k: v for k, v in os.environ.items() if k != "CLEMATIS3_VERIF"})
            tres = "pass" if t.returncode == 0 else "fail"
            if tres == "fail":
                tail = [l for l in t.stdout.splitlines() if l.startswith("FAILED")][:3]
                tres += ":" + ";".join(tail)
        env = dict(os.environ, VERIF_REPO=d, VERIF_REPLAY_DIR=rep, VERIF_EVIDENCE_DIR=rep)
        c = subprocess.run([os.path.join(VERIF, "check"), prop, tier], cwd=VERIF, capture_output=True, text=True, env=env)
        sigs = re.findall(r"^\s+signature: (.*)$", c.stdout, flags=re.M)
        if c.returncode == 1 and "VIOLATION property=%s" % prop in c.stdout:
            verdict = "DETECTED"
        elif c.returncode == 0:
            verdict = "MISSED"
        else:
            verdict = "ERROR(rc=%d)" % c.returncode
            sigs = [(c.stdout + c.stderr).strip().splitlines()[-1][:300] if (c.stdout + c.stderr).strip() else ""]
        return prop, name, tres, verdict, sigs
    finally:
        shutil.rmtree(d, ignore_errors=True)
        shutil.rmtree(rep, ignore_errors=True)


def main():
    ap = argparse.ArgumentParser()
    ap.add_argument("props", nargs="*")
    ap.add_argument("--tier", default="quick")
    ap.add_argument("--tests", action="store_true")
    ap.add_argument("--only")
    ap.add_argument("--seeded", action="store_true")
    ap.add_argument("--jobs", type=int, default=3)
    a = ap.parse_args()
    jobs = []
    if a.seeded:
        for d in sorted(glob.glob(os.path.join(VERIF, "seeded", "*"))):
            sid = os.path.basename(d)
            if a.props and sid not in a.props:
                continue
            meta = json.load(open(os.path.join(d, "meta.json")))
            props = meta.get("property") if isinstance(meta.get("property"), list) else [meta.get("property")]
            for pr in props:
                jobs.append((pr, "seeded/" + sid, os.path.join(d, "patch.diff")))
    else:
        for prop in a.props:
            for diff in sorted(glob.glob(os.path.join(VERIF, "mutants", prop, "*.diff"))):
                name = os.path.basename(diff)[:-5]
                if a.only and a.only not in name:
                    continue
                jobs.append((prop, name, diff))
    with cf.ThreadPoolExecutor(max_workers=a.jobs) as ex:
        futs = [ex.submit(run_one, p, n, d, a.tier, a.tests) for p, n, d in jobs]
        for f in futs:
            prop, name, tres, verdict, sigs = f.result()
            print("%s %-40s tests=%s check=%s sigs=%s" % (prop, name, tres, verdict, sigs), flush=True)


if __name__ == "__main__":
    main()
