#!/usr/bin/env python3
"""Regenerates the machine-written tables of DESIGN.md section 8 (between the AUTO markers) from
known_findings.json, seeded/*/meta.json, tools/seed_history.json and tools/mutant_results.txt."""
import collections
import glob
import json
import os
import re
import subprocess

VERIF = os.path.dirname(os.path.dirname(os.path.abspath(__file__)))


def findings_tables():
    k = json.load(open(os.path.join(VERIF, "known_findings.json")))
    subj = {}
    try:
        for ln in subprocess.check_output(["git", "-C", "/repo", "log", "--format=%h %s", "-80"], text=True).splitlines():
            h, s = ln.split(" ", 1)
            subj[h] = s
    except Exception:
        pass
    fixed = collections.OrderedDict()
    for e in k:
        if e["status"] == "fixed":
            fixed.setdefault((e["commit"], e["property"]), []).append(e)
    out = ["| commit | property | signatures | what failed |", "|---|---|---|---|"]
    for (c, p), es in fixed.items():
        what = es[0]["what"].split(c, 1)[-1].strip()
        out.append("| `%s` %s | %s | %s | %s |" % (c, subj.get(c, "").replace("|", "/")[:90], p,
                                                   "<br>".join("`%s`" % e["signature"] for e in es[:4]) + (" +%d" % (len(es) - 4) if len(es) > 4 else ""),
                                                   what.replace("|", "/")[:330]))
    out += ["", "| property | signature | what fails (listed, not repaired) |", "|---|---|---|"]
    for e in k:
        if e["status"] == "known":
            out.append("| %s | `%s` | %s |" % (e["property"], e["signature"], e["what"].replace("|", "/")[:420]))
    return "\n".join(out)


def mutants_table():
    p = os.path.join(VERIF, "tools", "mutant_results.txt")
    if not os.path.exists(p):
        return "(not run yet)"
    rows = collections.OrderedDict()
    for ln in open(p):
        m = re.match(r"^(C\d\d) (\S+)\s+tests=(\S+).*check=(\S+)", ln)
        if not m:
            continue
        prop, name, tests, verdict = m.groups()
        rows[(prop, name)] = (tests.split(":")[0], verdict)
    by = collections.OrderedDict()
    for (prop, name), (tests, verdict) in rows.items():
        d = by.setdefault(prop, {"n": 0, "det": 0, "tests_pass": 0, "tp_det": 0, "missed": []})
        d["n"] += 1
        if verdict == "DETECTED":
            d["det"] += 1
        else:
            d["missed"].append("%s (%s)" % (name, verdict))
        if tests == "pass":
            d["tests_pass"] += 1
            if verdict == "DETECTED":
                d["tp_det"] += 1
    out = ["| property | mutants | detected by the check | pass the repo's 519 tests | of those detected | not detected |", "|---|---|---|---|---|---|"]
    for prop, d in by.items():
        out.append("| %s | %d | %d | %d | %d | %s |" % (prop, d["n"], d["det"], d["tests_pass"], d["tp_det"], "; ".join(d["missed"]) or "-"))
    tot = [sum(d[k] for d in by.values()) for k in ("n", "det", "tests_pass", "tp_det")]
    out.append("| **all** | %d | %d | %d | %d | |" % tuple(tot))
    return "\n".join(out)


def seeds_table():
    hist = {}
    hp = os.path.join(VERIF, "tools", "seed_history.json")
    if os.path.exists(hp):
        hist = json.load(open(hp))
    out = ["| id | breaks | change | needs to manifest | repo tests | first run of the checks | now | what was strengthened |", "|---|---|---|---|---|---|---|---|"]
    n = ok = first_missed = 0
    for d in sorted(glob.glob(os.path.join(VERIF, "seeded", "*"))):
        m = json.load(open(os.path.join(d, "meta.json")))
        sid = m["id"]
        v = m.get("validated", {})
        now = "; ".join("%s %s" % (k.split()[0], c["verdict"]) for k, c in sorted(m.get("checks", {}).items()))
        h = hist.get(sid, {})
        first = h.get("first", "DETECTED")
        n += 1
        if any(c["verdict"] == "DETECTED" for c in m.get("checks", {}).values()):
            ok += 1
        if first != "DETECTED":
            first_missed += 1
        out.append("| %s | %s | %s | %s | %s | %s | %s | %s |" % (
            sid, ",".join(m["property"]), m.get("what", "").replace("|", "/"), m.get("needs", "").replace("|", "/"),
            "pass" if v.get("tests_pass_with_change", True) else "FAIL", first, now, h.get("change", "-").replace("|", "/")))
    out.append("")
    out.append("%d independently produced changes; %d detected by at least one check now; %d were missed (or crashed the harness) when first run and led to the strengthening in the last column." % (n, ok, first_missed))
    return "\n".join(out)


def main():
    p = os.path.join(VERIF, "DESIGN.md")
    s = open(p).read()
    for tag, fn in (("FINDINGS", findings_tables), ("MUTANTS", mutants_table), ("SEEDS", seeds_table)):
        a, b = "<!-- AUTO:%s -->" % tag, "<!-- /AUTO:%s -->" % tag
        if a in s and b in s:
            s = s[: s.index(a) + len(a)] + "\n" + fn() + "\n" + s[s.index(b):]
    open(p, "w").write(s)


if __name__ == "__main__":
    main()
