#!/usr/bin/env python3
"""Ingest + validate independently produced property-breaking changes.

    tools/validate_seed.py ingest <prop> <worktree> [n ...]     copies WT/_seed/<n>/{patch.diff,demo.py,notes.md} to seeded/<prop>-s<n>/
    tools/validate_seed.py check <id> [--tier quick] [--no-tests]

`check` confirms, in a scratch copy of /repo (outside /repo and /verif, removed afterwards):
  1. demo exits 0 on the unchanged tree            2. the patch applies
  3. the repo's pinned test suite passes with it    4. demo exits 1 with it
  5. runs every listed property's check (quick) against the changed copy and records DETECTED / MISSED + signatures
and writes the outcome into seeded/<id>/meta.json (fields: property, needs, validated{...}, checks{...}).
"""
import json
import os
import re
import shutil
import subprocess
import sys
import tempfile

VERIF = os.path.dirname(os.path.dirname(os.path.abspath(__file__)))
REPO = "/repo"


def sh(cmd, cwd=None, env=None, timeout=3600):
    p = subprocess.run(cmd, cwd=cwd, env=env, capture_output=True, text=True, timeout=timeout)
    return p.returncode, p.stdout, p.stderr


def make_copy(tag):
    d = tempfile.mkdtemp(prefix="seed-%s-" % tag, dir="/dev/shm")
    subprocess.run(["rsync", "-a", "--exclude", ".git", REPO + "/", d + "/"], check=True)
    return d


def ingest(prop, wt, ns, offset=0):
    src = os.path.join(wt, "_seed")
    if not ns:
        ns = sorted(os.listdir(src))
    for n in ns:
        sid = "%s-s%s" % (prop, int(n) + offset)
        dst = os.path.join(VERIF, "seeded", sid)
        os.makedirs(dst, exist_ok=True)
        for f in ("patch.diff", "demo.py", "notes.md"):
            s = os.path.join(src, str(n), f)
            if os.path.exists(s):
                shutil.copy(s, os.path.join(dst, f))
        mp = os.path.join(dst, "meta.json")
        if not os.path.exists(mp):
            json.dump({"id": sid, "property": [prop], "origin": "fresh sub-agent given only the property record and a scratch worktree",
                       "needs": "", "validated": {}, "checks": {}}, open(mp, "w"), indent=1)
        print("ingested", sid)


def check(sid, tier="quick", tests=True):
    d0 = os.path.join(VERIF, "seeded", sid)
    meta = json.load(open(os.path.join(d0, "meta.json")))
    cp = make_copy(sid)
    rep = tempfile.mkdtemp(prefix="seedrep-", dir="/dev/shm")
    env = dict(os.environ, PYTHONPATH=cp, CI="true", PYTHONHASHSEED="0")
    env.pop("CLEMATIS3_VERIF", None)
    v = {}
    try:
        os.makedirs(os.path.join(cp, "_seed", "x"), exist_ok=True)
        shutil.copy(os.path.join(d0, "demo.py"), os.path.join(cp, "_seed", "x", "demo.py"))
        rc, so, se = sh(["/venv/bin/python", "_seed/x/demo.py"], cwd=cp, env=env)
        v["demo_unchanged_rc"] = rc
        rc, so, se = sh(["patch", "-p1", "-s", "--no-backup-if-mismatch", "-i", os.path.join(d0, "patch.diff")], cwd=cp)
        v["patch_applies"] = rc == 0
        if rc != 0:
            v["patch_error"] = (so + se)[-300:]
        else:
            if not tests and "tests_pass_with_change" in (meta.get("validated") or {}):
                v["tests_pass_with_change"] = meta["validated"]["tests_pass_with_change"]  # keep the earlier verdict
            if tests:
                rc, so, se = sh(["/venv/bin/python", "-m", "pytest", "-q", "-p", "no:cacheprovider", "--timeout=900", "-q"], cwd=cp,
                                env={k: v_ for k, v_ in os.environ.items() if k != "CLEMATIS3_VERIF"})
                v["tests_pass_with_change"] = rc == 0
                if rc != 0:
                    v["tests_failed"] = [l for l in so.splitlines() if l.startswith("FAILED")][:5]
            rc, so, se = sh(["/venv/bin/python", "_seed/x/demo.py"], cwd=cp, env=env)
            v["demo_changed_rc"] = rc
            v["demo_changed_output"] = (so + se).strip()[-400:]
            for prop in meta["property"]:
                e2 = dict(os.environ, VERIF_REPO=cp, VERIF_REPLAY_DIR=rep, VERIF_EVIDENCE_DIR=rep)
                rc, so, se = sh([os.path.join(VERIF, "check"), prop, tier], cwd=VERIF, env=e2)
                sigs = re.findall(r"^\s+signature: (.*)$", so, flags=re.M)
                verdict = "DETECTED" if (rc == 1 and "VIOLATION property=%s" % prop in so) else ("MISSED" if rc == 0 else "ERROR rc=%d" % rc)
                meta.setdefault("checks", {})["%s %s" % (prop, tier)] = {"verdict": verdict, "signatures": sigs[:12],
                                                                     "tail": "" if verdict != "ERROR rc=%d" % rc else (so + se)[-300:]}
        meta["validated"] = v
        meta["validated"]["ok"] = bool(v.get("demo_unchanged_rc") == 0 and v.get("patch_applies") and v.get("demo_changed_rc") == 1
                                       and (v.get("tests_pass_with_change", True)))
        json.dump(meta, open(os.path.join(d0, "meta.json"), "w"), indent=1, ensure_ascii=False)
        print(sid, json.dumps({"validated": meta["validated"].get("ok"), "tests": v.get("tests_pass_with_change"),
                               "demo": [v.get("demo_unchanged_rc"), v.get("demo_changed_rc")], "checks": {k: c["verdict"] for k, c in meta.get("checks", {}).items()}}))
    finally:
        shutil.rmtree(cp, ignore_errors=True)
        shutil.rmtree(rep, ignore_errors=True)


if __name__ == "__main__":
    if sys.argv[1] == "ingest":
        rest = sys.argv[4:]
        off = 0
        if "--offset" in rest:
            off = int(rest[rest.index("--offset") + 1])
            rest = [x for i, x in enumerate(rest) if x != "--offset" and (i == 0 or rest[i - 1] != "--offset")]
        ingest(sys.argv[2], sys.argv[3], rest, off)
    elif sys.argv[1] == "check":
        a = sys.argv[2:]
        tier = "quick"
        if "--tier" in a:
            tier = a[a.index("--tier") + 1]
        check(a[0], tier=tier, tests="--no-tests" not in a)
